#!/bin/bash
# Idempotent, offline: overlay venv on top of /venv (which has placement's deps)
# with z3-solver and crosshair-tool from the local wheelhouse.
set -e
V=/verif/.venv
if [ ! -x $V/bin/python ] || ! $V/bin/python -c "import z3, crosshair, greenlet, sqlalchemy" 2>/dev/null; then
  rm -rf $V
  /venv/bin/python -m venv $V
  SP=$($V/bin/python -c "import sysconfig; print(sysconfig.get_paths()['purelib'])")
  printf "import site; site.addsitedir('/venv/lib/python3.12/site-packages')\n" > $SP/_overlay.pth
  PIP_NO_INDEX=1 $V/bin/pip install -q --no-index --find-links /opt/veriftools/wheels z3-solver crosshair-tool >/dev/null
fi
$V/bin/python -c "import z3, crosshair, greenlet, sqlalchemy; print('verif venv ok', z3.get_version_string())"
