#!/usr/bin/env python3
"""explain a C17/C18 replay: run it concretely and print canonical states"""
import sys, json
sys.path.insert(0, '/verif')
from engine import app, inject, symex
from engine.scenario import ConcreteCtx, canon
from engine.symex import PathCtx
from checks import corpus
body = json.load(open(sys.argv[1]))
name = body['family'].split('/', 1)[1]
shape = [s for s in corpus.shapes('thorough') if s.name == name][0]
app.setup()
def run(with_fault):
    ctx = ConcreteCtx(body['values'] or {})
    ctx.replay_choices = list(body.get('choices') or []) if with_fault else None
    PathCtx.cur = ctx
    try:
        with shape.world(ctx, **shape.wkw) as w:
            pre = canon(w.dump())
            un = None
            if with_fault:
                hook, un = inject.install_faults(w) if body['property'] == 'C17' else inject.install_crash(w)
            try:
                r = shape.request(ctx, w, shape)
                st = r.status
            except BaseException as e:
                st = repr(e)
            finally:
                if un: un()
            return pre, st, canon(w.dump()), (hook.injected if with_fault and hasattr(hook,'injected') else None)
    finally:
        PathCtx.cur = None
pre, s0, post, _ = run(False)
_, s1, fin, inj = run(True)
print('fault-free status', s0, 'faulted status', s1, 'injected', inj)
for k in pre:
    if not (pre[k] == post[k] == fin[k]):
        print(k); print('  pre ', pre[k]); print('  post', post[k]); print('  fin ', fin[k])
