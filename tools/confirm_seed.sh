#!/bin/bash
# usage: confirm_seed.sh <ID> [name]   -- confirms /tmp/wt/<ID>.out/{patch.diff,demo.py} in a fresh scratch worktree
ID=$1; NAME=${2:-$1}
OUT=/tmp/wt/$ID.out
W=/tmp/cs_$NAME
git -C /repo worktree remove --force $W >/dev/null 2>&1
git -C /repo worktree add -q --detach $W HEAD || exit 2
cd $W
sed "s#/tmp/wt/$ID\b#$W#g" $OUT/demo.py > /tmp/cs_demo_$NAME.py
timeout 600 /venv/bin/python /tmp/cs_demo_$NAME.py > /tmp/cs_$NAME.base.log 2>&1; base=$?
git apply $OUT/patch.diff || { echo "PATCH DOES NOT APPLY"; git -C /repo worktree remove --force $W; exit 2; }
timeout 600 /venv/bin/python /tmp/cs_demo_$NAME.py > /tmp/cs_$NAME.mut.log 2>&1; mut=$?
tests=$(/venv/bin/python -m pytest -q -p no:cacheprovider --timeout=900 --continue-on-collection-errors 2>&1 | tail -1)
cd /; git -C /repo worktree remove --force $W
echo "$ID demo_unchanged_exit=$base demo_changed_exit=$mut tests: $tests"
