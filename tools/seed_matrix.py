#!/usr/bin/env python3
"""Run checks against seeded changes on scratch copies of /repo/placement
(PLACEMENT_SRC), several in parallel, without touching /repo.

usage: tools/seed_matrix.py [--seeds S01,S02|all] [--checks target|all|C01,C02]
                            [--tier quick] [--jobs 3] [--out /tmp/matrix.json]
"target" = the check of the property the seed breaks (from meta.json).
"""
import argparse
import concurrent.futures as cf
import glob
import json
import os
import shutil
import subprocess
import sys
import time

VERIF = os.environ.get('VERIF_DIR', '/verif')


def run(seed_dir, check, tier, timeout):
    name = os.path.basename(seed_dir)
    scratch = '/tmp/seedrun/%s-%s' % (name, check)
    shutil.rmtree(scratch, ignore_errors=True)
    os.makedirs(scratch)
    subprocess.run('cp -r ' + os.environ.get('REPO_SRC', '/repo') + '/placement %s/ && cd %s && git init -q . && '
                   'git apply %s/patch.diff' % (scratch, scratch, seed_dir),
                   shell=True, check=True, capture_output=True)
    env = dict(os.environ, PLACEMENT_SRC=scratch, VERIF_WORKERS='5',
               VERIF_EVIDENCE_DIR=scratch + '/evidence')
    t0 = time.time()
    try:
        p = subprocess.run(
            ['/verif/.venv/bin/python', '-m',
             'checks.' + check.lower(), '--tier', tier],
            cwd=VERIF, env=env, capture_output=True, text=True,
            timeout=timeout)
        code = p.returncode
        lines = [l.strip()[:260] for l in p.stdout.splitlines()
                 if l.startswith(('  family=', 'HARNESS', 'INCONCL'))]
    except subprocess.TimeoutExpired:
        code, lines = 'timeout', []
    shutil.rmtree(scratch, ignore_errors=True)
    return name, check, dict(exit=code, wall=round(time.time() - t0),
                             lines=lines[:6])


def main():
    ap = argparse.ArgumentParser()
    ap.add_argument('--seeds', default='all')
    ap.add_argument('--checks', default='target')
    ap.add_argument('--tier', default='quick')
    ap.add_argument('--jobs', type=int, default=3)
    ap.add_argument('--timeout', type=int, default=1500)
    ap.add_argument('--out', default='/tmp/seed_matrix.json')
    a = ap.parse_args()
    dirs = sorted(glob.glob('/verif/seeded/[STUVWX]*'))
    if a.seeds != 'all':
        want = a.seeds.split(',')
        dirs = [d for d in dirs if any(os.path.basename(d).startswith(w)
                                       for w in want)]
    jobs = []
    for d in dirs:
        meta = json.load(open(d + '/meta.json'))
        if meta.get('retired'):
            print('%-48s retired (see meta.json)' % os.path.basename(d))
            continue
        if a.checks == 'target':
            cs = [meta['breaks_property']]
        elif a.checks == 'all':
            cs = ['C%02d' % i for i in range(1, 21)]
        else:
            cs = a.checks.split(',')
        jobs += [(d, c) for c in cs]
    res = {}
    with cf.ThreadPoolExecutor(a.jobs) as ex:
        futs = [ex.submit(run, d, c, a.tier, a.timeout) for d, c in jobs]
        for f in cf.as_completed(futs):
            name, check, r = f.result()
            res.setdefault(name, {})[check] = r
            print('%-48s %s exit=%s %ss %s' % (
                name, check, r['exit'], r['wall'],
                r['lines'][0][:150] if r['lines'] else ''), flush=True)
            json.dump(res, open(a.out, 'w'), indent=1)
    return 0


if __name__ == '__main__':
    sys.exit(main())
