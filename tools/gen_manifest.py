#!/usr/bin/env python3
"""Regenerates MANIFEST.json from the table below (keeps it schema-valid)."""
import json
import os

HERE = os.path.dirname(os.path.dirname(os.path.abspath(__file__)))
TECH = ('dynamic symbolic execution of the real WSGI/handler/object code over '
        'a symbolic database; z3 decides branch feasibility and each '
        'obligation; counterexamples replayed on real SQLite')
NOTE = ('trusted: engine/symdb.py (SQL interpreter, differentially validated '
        'against SQLite), the shims listed in DESIGN 3.4, z3; bounds: the '
        'scenario families listed in evidence; nonlinear products/remainders '
        'abstracted by uninterpreted functions in proofs')

CHECKS = {
    'C01': dict(
        text='Bounded symbolic model checking of one inductive step: every '
             'path of the real PUT/POST allocation request code over a '
             'symbolic pre-state is explored; on each accepted path z3 proves '
             'the unit, capacity and no-growth clauses for all numeric values; '
             'PUT in every document format at a symbolic microversion, POST '
             'with 2-3 writers, reshaper rewriting two inventories and two '
             'consumers, flat / chain / star forests (thorough). Bounds '
             '(providers, classes, consumers) per family in evidence. Every '
             'check ends with a conformance pass: sampled passing paths are '
             're-run on the real application on SQLite and must agree.',
        ref='DESIGN.md section 5 C01'),
    'C02': dict(
        text='Bounded symbolic model checking: on every path of the real GET '
             '/allocation_candidates over a symbolic state z3 proves the '
             'placement clauses (per-class totals, each group in full on its '
             'mapped provider) and the provider_summaries values, and each '
             'returned candidate is claimed by running the real PUT '
             '/allocations in the same path: no rejecting PUT path may be '
             'feasible.',
        ref='DESIGN.md section 5 C02'),
    'C13': dict(
        text='Bounded symbolic model checking against a per-provider oracle: '
             'for 36 hand-written filter families and every generated '
             'combination of two (quick) / three / all six (thorough) of '
             'the six filters in every variant, every path of the real GET '
             '/resource_providers over symbolic inventories, usage, trait and '
             'aggregate bits and requested amounts; z3 proves listed <=> '
             'matches(p) for every provider on every path.',
        ref='DESIGN.md section 5 C13, Appendix B'),
    'C14': dict(
        text='Symbolic microversion: the application receives Version(1, m) '
             'with m a z3 integer in [0,39]; for each of 70 probing requests '
             '(one per documented feature) every version branch of the real '
             'handlers is explored and z3 proves observable present <=> '
             'lo <= m < hi, i.e. all 40 versions are decided at once and an '
             'off-by-one boundary yields the exact minor as counterexample. '
             'Route x method availability likewise. The language of the '
             'per-group query parameter names is decided by z3 regular-'
             'expression inclusion on the patterns read from the code '
             '(witnesses replayed). Every pair of (request kind, version) in '
             'one process must carry exactly one openstack-api-version value '
             'and Vary. Header negotiation strings are enumerated concretely '
             '(stated as enumeration).',
        ref='DESIGN.md section 5 C14, Appendix C'),
    'C15': dict(
        text='Claimed slice of C15: (a) every numeric leaf of the write '
             'corpus unconstrained-symbolic; (b) special floats enumerated; '
             '(c) every one-step structural mutation of 8 request documents '
             'with symbolic numbers; (d) error body format at a symbolic '
             'microversion (code <=> minor >= 23); (e) numeric query values '
             'on exotic topologies; z3 decides every branch and the '
             'no-change obligations; (e2) enumerated catalogues on symbolic '
             'states: hostile strings in every string position and key, raw '
             'bodies (deep nesting, bad UTF-8, surrogates, scalars), path '
             'items, repeated / conflicting query parameters, undecodable '
             'bytes, 64-bit boundary numbers (the symbolic database models '
             'the driver range of bound integers). (f) CrossHair on the pure query-string '
             'parsers: bounded bug-hunting, "Not confirmed" is reported as '
             'such, never as a proof.',
        ref='DESIGN.md section 5 C15'),
    'C17': dict(
        category='fault_enumeration',
        text='The faulting statement and the fault kind (deadlock, deadlock '
             'after a database-side rollback, duplicate key, generic error) '
             'are explorer decisions over the write corpus with a symbolic '
             'pre-state; the real wrap_db_retry / enginefacade code runs; '
             'for every fault z3 proves: answered like the fault-free run '
             'and final state equal to its result, or an error with a '
             'well-formed body and the pre-state untouched. Thorough: pairs '
             'of faults. Counterexamples replayed with real listeners on '
             'SQLite.',
        ref='DESIGN.md section 5 C17'),
    'C16': dict(
        text='For every route x method the caller is a vector of symbolic '
             'credential bits (token, admin, service, reader, member, same '
             'project); the real oslo.policy enforcer runs on the real rule '
             'defaults and z3 proves served => documented rule admits the '
             'caller, denied => rule does not, 401 without token, no state '
             'change when denied - at 1.39 and at a symbolic microversion. '
             'Single-rule overrides (! and @) are enumerated over rules x '
             'operations; overrides loaded from a real policy file and '
             'removed from it within one process.',
        ref='DESIGN.md section 5 C16'),
    'C18': dict(
        category='fault_enumeration',
        text='Crash points are explorer decisions (before every writer '
             'commit; statement-level points inside a transaction collapse '
             'onto it because uncommitted work is discarded) over the write '
             'corpus with a symbolic pre-state; for every crash point z3 '
             'proves that the surviving relations equal the pre-state or '
             'the fault-free post-state (modulo the tolerated auxiliary '
             'records) and that nothing dangles; forest checked concretely. '
             'Counterexamples are replayed with a real crash (BaseException '
             'before Session.commit) on SQLite.',
        ref='DESIGN.md section 5 C18'),
    'C19': dict(
        text='(a) z3 regular-expression inclusion of the real schema '
             'patterns (Python search/$ semantics) in CUSTOM_[A-Z0-9_]+ for '
             'all strings up to maxLength, witnesses replayed through the '
             'API; (b) symbolic execution of class creation over a table '
             'with symbolic custom ids proving id >= 10000 and uniqueness; '
             '(c) start-up sync from every subset of present standard rows '
             '(4+4 symbols) proving presence, fixed ids, idempotence; (d) '
             'standard names immutable.',
        ref='DESIGN.md section 5 C19'),
    'C20': dict(
        text='Bounded symbolic model checking: unlimited and limit=1..M+1 '
             'requests run in one path over a symbolic state; random.sample/'
             'shuffle/choices are replaced by arbitrary selections explored as '
             'decisions, so every seed is covered; z3 proves count, subset, '
             'distinctness, prefix (no randomisation) and summary coverage.',
        ref='DESIGN.md section 5 C20'),
    'C03': dict(
        text='Bounded symbolic model checking against a relational oracle: '
             'for each (topology, query) family every path of the real GET '
             '/allocation_candidates code is explored over symbolic '
             'inventories, usage, trait/aggregate/sharing bits and requested '
             'amounts; on each path z3 proves that every returned candidate '
             'is a valid combination, that every valid combination is '
             'returned, and that no candidate is returned twice.',
        ref='DESIGN.md section 5 C03, Appendix B'),
    'C04': dict(
        text='Bounded symbolic model checking: every path of 35 write-request '
             'shapes (allocation PUT/POST/DELETE, reshaper, inventory, trait, '
             'aggregate writes; failing at each stage) over a symbolic '
             'pre-state; on every path answered >=400 z3 proves the post-state '
             'relations equal the pre-state relations for all numeric values.',
        ref='DESIGN.md section 5 C04'),
    'C05': dict(
        text='Two (thorough: three) real requests on one provider run as '
             'greenlets through the full stack; every interleaving at '
             'transaction granularity is an explorer decision sequence; '
             'stored and supplied generations and inventory numbers are '
             'symbolic. On each terminal path z3 proves: two successes never '
             'carried equal generations; a success carried the generation '
             'committed when its write transaction started; the final state '
             'equals a serial execution of exactly the successful requests '
             '(so a 409 changed nothing).',
        ref='DESIGN.md section 5 C05'),
    'C06': dict(
        text='As C05 for consumer generations: PUT/POST allocations and '
             'reshaper racing for one new or existing consumer; obligations: '
             'one winner per generation, success carried the current '
             'generation (null <=> the request itself created the consumer '
             'and nobody wrote it since), serial equivalence, allocation => '
             'consumer record after every schedule.',
        ref='DESIGN.md section 5 C06'),
    'C07': dict(
        text='As C05/C06 for claims of different consumers and guarded '
             'inventory/trait/aggregate writers racing for one inventory: '
             'for each terminal path z3 proves that the final relations '
             'equal those of some serial execution (re-executed in the same '
             'path on a fresh copy of the same symbolic state) in which the '
             'same requests succeed, and that the claims did not jointly '
             'over-commit.',
        ref='DESIGN.md section 5 C07'),
    'C08': dict(
        text='One inductive step: pre-state assumed referentially intact, '
             'every path of the write corpus explored, z3 proves that no '
             'allocation/inventory/association in the post-state dangles.',
        ref='DESIGN.md section 5 C08'),
    'C09': dict(
        text='One inductive step from every forest: the forest over the pool '
             '(all 16 forests on 3 providers quick, all 125 on 4 plus six '
             'deep forests on 8 providers thorough), '
             'the operands and the request (POST under any parent / missing '
             '/ self, PUT to every new parent incl. descendants, DELETE) are '
             'explorer decisions; microversion minor (0..39) and generations '
             'are symbolic; z3 decides the version branches and proves the '
             'status the statement prescribes; forest and root pointers are '
             'checked on the tables and through GET.',
        ref='DESIGN.md section 5 C09'),
    'C10': dict(
        text='One inductive step over the write corpus with symbolic stored '
             'and supplied generations: z3 proves monotonicity, strict '
             'increase on accepted changes, no change on rejections, and '
             'returned == stored generation; after an accepted write on a '
             'root / child / grandchild the returned generation equals what '
             'all ten generation-reporting read routes return; k accepted '
             'concurrent writes move a generation by at least k (also with '
             'allocation_conflict_retry_count 1 and 2); shapes where the '
             'consumer carries a provider uuid.',
        ref='DESIGN.md section 5 C10'),
    'C11': dict(
        text='Two one-step obligations over an arbitrary valid symbolic '
             'state: (R) every claimed read route (provider, inventories, '
             'traits, aggregates, usages, allocations by consumer and by '
             'provider, project/user/type totals) returns exactly the '
             'abstraction of the tables — presence of each item and every '
             'value proved equal by z3, at a symbolic microversion where '
             'fields depend on it; (W) sixteen write routes (allocations '
             'PUT in every format / POST / DELETE, inventories PUT / POST / '
             'DELETE one and all, traits PUT / DELETE, aggregates PUT, '
             'providers POST / PUT / DELETE) answer with the '
             'status their documented meaning prescribes (accept <=> formula '
             'written from the api-ref) and leave exactly the prescribed '
             'state. Routes not listed in the evidence are not claimed.',
        ref='DESIGN.md section 5 C11'),
    'C12': dict(
        text='One inductive step over the allocation-writing corpus: z3 '
             'proves "consumer row <=> at least one allocation" and the '
             'consumer attributes on every path, for symbolic presence of '
             'consumers/allocations and symbolic generations.',
        ref='DESIGN.md section 5 C12'),
}

NOT_APPLICABLE = {}


def main():
    props = [json.loads(l) for l in open(os.path.join(HERE, 'properties.jsonl'))]
    checks = []
    for pid, c in CHECKS.items():
        checks.append(dict(
            property_id=pid,
            quick_cmd='./check %s --tier quick' % pid,
            thorough_cmd='./check %s --tier thorough' % pid,
            evidence_file='/verif/evidence/%s.json' % pid,
            replay_cmd_template='./check %s --replay {path}' % pid,
            engine='symex',
            level_claimed=dict(category=c.get('category', 'model_checking'),
                               text=c['text'], design_ref=c['ref']),
            level_note=c.get('note', NOTE),
            technique=c.get('technique', TECH)))
    na = []
    for p in props:
        if p['id'] not in CHECKS:
            na.append(dict(property_id=p['id'],
                           reason=NOT_APPLICABLE.get(
                               p['id'], 'check not built yet in this session; '
                               'planned per DESIGN.md section 5')))
    m = dict(
        version=1,
        setup_cmd='./setup.sh',
        hooks=dict(guard='PLACEMENT_VERIF', enable='PLACEMENT_VERIF=1 (set by '
                   'engine/app.py; no source hooks are needed: the engine '
                   'installs itself through oslo.db patch_factory)',
                   baseline_off_cmd='cd /repo && /venv/bin/python -m pytest '
                   '-q -p no:cacheprovider --timeout=900 '
                   '--continue-on-collection-errors',
                   source_commits=[], add_only=True),
        engines=[dict(name='symex', path='/verif/engine',
                      serves_properties=sorted(CHECKS),
                      kind_free_text='DART-style dynamic symbolic execution '
                      'of the real Python code with z3, symbolic SQL '
                      'database, replay on SQLite')],
        checks=checks,
        not_applicable=na,
        notes='see DESIGN.md; known findings in known_findings.json')
    json.dump(m, open(os.path.join(HERE, 'MANIFEST.json'), 'w'), indent=1)
    print('wrote MANIFEST.json with', len(checks), 'checks,', len(na), 'n/a')


if __name__ == '__main__':
    main()
