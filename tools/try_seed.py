#!/usr/bin/env python3
"""Apply a seeded change to /repo, run checks against it, undo it.

usage: tools/try_seed.py <patch.diff> [--checks C01,C04,...] [--tier quick]
Prints one line per check: exit code and the VIOLATION lines, and writes the
summary as JSON to stdout's last line.  /repo is restored in every case.
"""
import argparse
import json
import os
import subprocess
import sys
import time

ALL = ['C%02d' % i for i in range(1, 21)]


def sh(cmd, **kw):
    import os
    # evidence of runs against a patched tree goes to scratch
    env = dict(os.environ, VERIF_EVIDENCE_DIR='/tmp/try_seed_evidence')
    return subprocess.run(cmd, shell=True, capture_output=True, text=True,
                          env=env, **kw)


def main():
    ap = argparse.ArgumentParser()
    ap.add_argument('patch')
    ap.add_argument('--checks', default=','.join(ALL))
    ap.add_argument('--tier', default='quick')
    ap.add_argument('--timeout', type=int, default=900)
    a = ap.parse_args()
    st = sh('git -C /repo status --porcelain')
    if st.stdout.strip():
        print('refusing: /repo is not clean:\n' + st.stdout)
        return 2
    r = sh('git -C /repo apply %s' % a.patch)
    if r.returncode != 0:
        print('patch does not apply: ' + r.stderr)
        return 2
    out = {}
    try:
        for c in a.checks.split(','):
            t0 = time.time()
            try:
                p = sh('cd /verif && ./check %s --tier %s' % (c, a.tier),
                       timeout=a.timeout)
                code = p.returncode
                lines = [l for l in p.stdout.splitlines()
                         if l.startswith(('VIOLATION', '  family=',
                                          'HARNESS', 'INCONCL'))]
            except subprocess.TimeoutExpired:
                code, lines = 'timeout', []
            out[c] = dict(exit=code, wall=round(time.time() - t0, 1),
                          lines=[l[:300] for l in lines[:8]])
            print('%s exit=%s %.0fs %s' % (c, code, time.time() - t0,
                                           (lines[1][:200] if len(lines) > 1
                                            else lines[0][:200] if lines
                                            else '')), flush=True)
    finally:
        sh('git -C /repo checkout -- .')
        sh('rm -f /verif/replays/*.json')
    print(json.dumps(out))
    return 0


if __name__ == '__main__':
    sys.exit(main())
