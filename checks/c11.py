"""C11 — reads report exactly the state produced by the successful writes
(DESIGN 5/C11).

Two one-step obligations which give the statement by induction over
histories: (R) on an arbitrary valid state every read route returns the
abstraction of the tables; (W) every write route answers with the status its
documented meaning prescribes in that state and leaves exactly the state that
meaning prescribes.  The route list below is what is claimed; anything not
listed is reported as not covered.
"""
import sys
import z3

from engine import app, runner, symex, symdb
from engine.runner import Family, obligation, finish
from engine.scenario import (World, U, CONS, AGG, used_sum, capacity,
                             rel_diff, _by_key, _merged)
from engine.symdb import And, Or, Not, zbool
from engine.symex import to_z3, Sym

T1, T2 = 'CUSTOM_T1', 'CUSTOM_T2'
RCS = ('VCPU', 'DISK_GB')
FUNCTIONS = [
    'placement.handlers.resource_provider.get_resource_provider/'
    'list_resource_providers', 'placement.handlers.inventory.get_inventories/'
    'get_inventory/set_inventories/update_inventory/create_inventory/'
    'delete_inventory', 'placement.handlers.trait.'
    'list_traits_for_resource_provider/update_traits_for_resource_provider',
    'placement.handlers.aggregate.get_aggregates/set_aggregates',
    'placement.handlers.usage.list_usages/get_total_usages',
    'placement.handlers.allocation.list_for_consumer/'
    'list_for_resource_provider/set_allocations_for_consumer/'
    'delete_allocations', 'placement.objects.usage.*',
    'placement.objects.allocation.get_all_by_consumer_id/'
    'get_all_by_resource_provider', 'placement.objects.inventory.*',
    'placement.handlers.allocation.set_allocations (POST)',
    'placement.handlers.inventory.delete_inventories',
    'placement.handlers.trait.delete_traits_for_resource_provider',
    'placement.handlers.resource_provider.create_resource_provider/'
    'update_resource_provider/delete_resource_provider',
]


class S:
    """the symbolic state with handles for the abstraction function"""

    PROJECTS = ('proj', 'proj2', 'proj3')
    USERS = ('user', 'user2')
    OWNERS = {1: ('proj', 'user', 'INSTANCE'), 2: ('proj', 'user2', None)}

    def __init__(self, ctx, owners=None):
        self.ctx = ctx
        self.owner = dict(self.OWNERS)
        self.owner.update(owners or {})
        w = self.w = World(ctx)
        for rc in RCS:
            w.rc(rc)
        w.rc('CUSTOM_FOO', 10000)
        w.rc('CUSTOM_BAR', 10001)          # never used by an inventory
        for t in (T1, T2):
            w.trait(t)
        w.trait('CUSTOM_T3')               # never associated
        w.trait('CUSTOM_A_B')              # names that only differ where
        w.trait('CUSTOM_AXB')              # SQL LIKE has a wildcard
        w.trait('HW_CPU_X86_AVX')          # a standard trait
        w.agg(1)
        w.agg(2)
        # more projects than users: surrogate ids of the two tables do not
        # line up
        pid = {n: w.project(n) for n in self.PROJECTS}
        uid = {n: w.user(n) for n in self.USERS}
        ctid = {'INSTANCE': w.consumer_type('INSTANCE'), None: None}
        w.provider(1)
        w.provider(2, parent=1)
        self.inv = {}
        for p, rc in ((1, 'VCPU'), (1, 'DISK_GB'), (2, 'VCPU'),
                      (2, 'CUSTOM_FOO')):
            self.inv[(p, rc)] = w.inventory(p, rc)
        self.tr = {(1, T1): w.has_trait(1, T1), (2, T2): w.has_trait(2, T2)}
        self.ag = {(1, 1): w.in_agg(1, 1), (1, 2): w.in_agg(1, 2),
                   (2, 1): w.in_agg(2, 1), (2, 2): w.in_agg(2, 2)}
        conc = getattr(ctx, 'concrete', False)
        self.alloc = {}
        for c, p, rc in ((1, 1, 'VCPU'), (1, 2, 'VCPU'), (2, 1, 'VCPU'),
                         (2, 1, 'DISK_GB')):
            bit = ctx.bool('alloc_c%d_p%d_%s' % (c, p, rc))
            pres = (bit and self.inv[(p, rc)]['present']) if conc else \
                And(bit, self.inv[(p, rc)]['present'])
            used = w.allocation(c, p, rc, present=pres)
            self.alloc[(c, p, rc)] = (pres, used)
        self.cons = {}
        for c, (proj, user, ct) in self.owner.items():
            bits = [v[0] for k, v in self.alloc.items() if k[0] == c]
            pres = any(bits) if conc else Or(*bits)
            self.cons[c] = w.consumer(c, present=pres, project=pid[proj],
                                      user=uid[user], ctype=ctid[ct])

    def close(self):
        self.w.close()

    def __enter__(self):
        return self

    def __exit__(self, *a):
        self.close()
        return False

    # ---- abstraction function
    def used(self, p, rc, consumers=(1, 2)):
        ts = [z3.If(zbool(pr), to_z3(u), 0)
              for (c, q, r), (pr, u) in self.alloc.items()
              if q == p and r == rc and c in consumers]
        return z3.Sum(*ts) if len(ts) > 1 else ts[0] if ts else z3.IntVal(0)


def eq_or_violation(ctx, clause, got, want, what):
    """got: value from the response (python or proxy); want: z3 term/python"""
    if isinstance(got, Sym) or isinstance(want, (z3.ExprRef, Sym)):
        obligation(ctx, clause, to_z3(got) != to_z3(want), what, sig=what)
    elif got != want:
        runner.violation(ctx, clause, '%s: got %r, expected %r' % (
            what, got, want), sig=what)


def presence(ctx, clause, present_in_response, formula, what):
    f = zbool(formula)
    if present_in_response:
        obligation(ctx, clause, z3.Not(f), '%s is reported but not stored'
                   % what, sig=what)
    else:
        obligation(ctx, clause, f, '%s is stored but not reported' % what,
                   sig=what)


# ---- (R) read routes ----------------------------------------------------------

def read_provider(ctx, s):
    for p, par in ((1, None), (2, 1)):
        r = app.call('GET', '/resource_providers/' + U(p), version='sym')
        if r.status != 200:
            runner.violation(ctx, 'read-status', 'GET provider: %d' % r.status)
            continue
        js = r.json
        eq_or_violation(ctx, 'provider-repr', js['name'], 'p%d' % p, 'name')
        eq_or_violation(ctx, 'provider-repr', js['generation'],
                        s.w.prov[p]['generation'], 'generation')
        m = to_z3(ctx.data['minor'])
        has = 'root_provider_uuid' in js
        obligation(ctx, 'provider-repr', (m < 14) if has else (m >= 14),
                   'parent/root fields vs microversion')
        if has:
            eq_or_violation(ctx, 'provider-repr', js['root_provider_uuid'],
                            U(1), 'root uuid')
            eq_or_violation(ctx, 'provider-repr', js['parent_provider_uuid'],
                            U(par) if par else None, 'parent uuid')


def read_provider_list(ctx, s):
    """the same representation through the listing route (a different
    query), unfiltered and filtered"""
    m = to_z3(ctx.data['minor'])
    for q in ('', '?uuid=' + U(2), '?name=p2', '?in_tree=' + U(1)):
        r = app.call('GET', '/resource_providers' + q, version='sym')
        if r.status != 200:
            since = {'': 0, '?uuid=': 0, '?name=': 0, '?in_tree': 14}[q[:8]]
            obligation(ctx, 'provider-repr', m >= since,
                       'GET /resource_providers%s answered %d' % (
                           q, r.status), sig='list-status')
            continue
        got = {e['uuid']: e for e in r.json['resource_providers']}
        want = {2} if q[:6] in ('?uuid=', '?name=') else {1, 2}
        if set(got) != {U(p) for p in want}:
            runner.violation(ctx, 'provider-repr', 'list%s returned %s' % (
                q, sorted(got)), sig='list-members')
            continue
        for p, par in ((1, None), (2, 1)):
            if p not in want:
                continue
            e = got[U(p)]
            eq_or_violation(ctx, 'provider-repr', e['name'], 'p%d' % p,
                            'name (list)')
            eq_or_violation(ctx, 'provider-repr', e['generation'],
                            s.w.prov[p]['generation'],
                            'generation of p%d (list%s)' % (p, q[:6]))
            has = 'root_provider_uuid' in e
            obligation(ctx, 'provider-repr', (m < 14) if has else (m >= 14),
                       'parent/root fields vs microversion (list)')
            if has:
                eq_or_violation(ctx, 'provider-repr', e['root_provider_uuid'],
                                U(1), 'root uuid (list)')
                eq_or_violation(ctx, 'provider-repr',
                                e['parent_provider_uuid'],
                                U(par) if par else None, 'parent uuid (list)')


def read_catalogue(ctx, s):
    """traits and resource classes: listing with filters, single reads"""
    m = to_z3(ctx.data['minor'])
    known = {T1, T2, 'CUSTOM_T3', 'HW_CPU_X86_AVX', 'CUSTOM_A_B',
             'CUSTOM_AXB'}
    assoc = {T1: s.tr[(1, T1)], T2: s.tr[(2, T2)]}
    for q, want in (
            ('', {t: True for t in known}),
            ('?associated=true', dict(assoc)),
            ('?associated=false', {t: Not(assoc[t]) if t in assoc else True
                                   for t in known}),
            ('?name=startswith:CUSTOM_T', {T1: True, T2: True,
                                           'CUSTOM_T3': True}),
            ('?name=in:%s,HW_CPU_X86_AVX' % T1, {T1: True,
                                                 'HW_CPU_X86_AVX': True}),
            ('?name=startswith:CUSTOM_T&associated=true', dict(assoc)),
            # a prefix is a literal string: _ and % stand for themselves
            ('?name=startswith:CUSTOM_A_B', {'CUSTOM_A_B': True}),
            ('?name=startswith:CUSTOM_A%25', {}),
            ('?name=startswith:CUSTOM_A', {'CUSTOM_A_B': True,
                                           'CUSTOM_AXB': True})):
        r = app.call('GET', '/traits' + q, version='sym')
        if r.status != 200:
            obligation(ctx, 'traits-repr', m >= 6,
                       'GET /traits%s answered %d from 1.6 on' % (q, r.status))
            continue
        obligation(ctx, 'traits-repr', m < 6, 'traits served below 1.6')
        got = set(r.json['traits'])
        for t in known:
            presence(ctx, 'traits-repr', t in got, want.get(t, False),
                     'trait %s in GET /traits%s' % (t, q))
        if got - known:
            runner.violation(ctx, 'traits-repr', 'unknown traits %s in %s'
                             % (sorted(got - known), q))
    for t, there in ((T1, True), ('CUSTOM_NOPE', False),
                     ('HW_CPU_X86_AVX', True)):
        r = app.call('GET', '/traits/' + t, version='1.36')
        if (r.status == 204) != there or r.status not in (204, 404):
            runner.violation(ctx, 'traits-repr', 'GET /traits/%s: %d'
                             % (t, r.status))
    r = app.call('GET', '/resource_classes', version='sym')
    if r.status != 200:
        obligation(ctx, 'classes-repr', m >= 2,
                   'GET /resource_classes answered %d from 1.2 on' % r.status)
    else:
        obligation(ctx, 'classes-repr', m < 2, 'classes served below 1.2')
        got = {e['name'] for e in r.json['resource_classes']}
        if got != {'VCPU', 'DISK_GB', 'CUSTOM_FOO', 'CUSTOM_BAR'}:
            runner.violation(ctx, 'classes-repr', 'listed %s' % sorted(got))
    for c, there in (('VCPU', True), ('CUSTOM_FOO', True),
                     ('CUSTOM_NOPE', False)):
        r = app.call('GET', '/resource_classes/' + c, version='1.36')
        if (r.status == 200) != there or r.status not in (200, 404):
            runner.violation(ctx, 'classes-repr', 'GET class %s: %d'
                             % (c, r.status))
        if r.status == 200 and r.json.get('name') != c:
            runner.violation(ctx, 'classes-repr', 'GET class %s names %r'
                             % (c, r.json.get('name')))


def read_inventories(ctx, s):
    for p in (1, 2):
        r = app.call('GET', '/resource_providers/%s/inventories' % U(p),
                     version='sym')
        js = r.json
        eq_or_violation(ctx, 'inventories-repr',
                        js['resource_provider_generation'],
                        s.w.prov[p]['generation'], 'generation')
        for (q, rc), inv in s.inv.items():
            if q != p:
                continue
            presence(ctx, 'inventories-repr', rc in js['inventories'],
                     inv['present'], 'inventory %s on p%d' % (rc, p))
            if rc in js['inventories']:
                for f in ('total', 'reserved', 'min_unit', 'max_unit',
                          'step_size', 'allocation_ratio'):
                    eq_or_violation(ctx, 'inventories-repr',
                                    js['inventories'][rc][f], inv[f],
                                    '%s of %s on p%d' % (f, rc, p))
            one = app.call('GET', '/resource_providers/%s/inventories/%s'
                           % (U(p), rc), version='sym')
            presence(ctx, 'inventories-repr', one.status == 200,
                     inv['present'], 'GET inventory %s on p%d' % (rc, p))
            if one.status == 200:
                eq_or_violation(ctx, 'inventories-repr', one.json['total'],
                                inv['total'], 'total (single) %s p%d'
                                % (rc, p))
                for f in ('reserved', 'min_unit', 'max_unit', 'step_size',
                          'allocation_ratio'):
                    eq_or_violation(ctx, 'inventories-repr', one.json[f],
                                    inv[f], '%s (single) %s p%d' % (f, rc, p))
                if 'resource_provider_generation' not in one.json:
                    runner.violation(
                        ctx, 'inventories-repr', 'GET inventory %s of p%d '
                        'does not report resource_provider_generation'
                        % (rc, p), sig='single-generation-missing')
                else:
                    eq_or_violation(
                        ctx, 'inventories-repr',
                        one.json['resource_provider_generation'],
                        s.w.prov[p]['generation'], 'generation (single)')
        extra = set(js['inventories']) - {rc for (q, rc) in s.inv if q == p}
        if extra:
            runner.violation(ctx, 'inventories-repr', 'unknown classes %s'
                             % extra)


def read_traits_aggs(ctx, s):
    m = to_z3(ctx.data['minor'])
    for p in (1, 2):
        r = app.call('GET', '/resource_providers/%s/traits' % U(p),
                     version='sym')
        if r.status != 200:
            obligation(ctx, 'traits-repr', m >= 6,
                       'GET traits answered %d from 1.6 on' % r.status)
            if r.status != 404:
                runner.violation(ctx, 'read-status', 'traits: %d' % r.status)
        else:
            obligation(ctx, 'traits-repr', m < 6, 'traits served below 1.6')
            got = set(r.json['traits'])
            for (q, t), bit in s.tr.items():
                if q == p:
                    presence(ctx, 'traits-repr', t in got, bit,
                             'trait %s on p%d' % (t, p))
            if got - {t for (q, t) in s.tr if q == p}:
                runner.violation(ctx, 'traits-repr', 'unknown traits reported')
            eq_or_violation(ctx, 'traits-repr',
                            r.json['resource_provider_generation'],
                            s.w.prov[p]['generation'], 'generation')
        r = app.call('GET', '/resource_providers/%s/aggregates' % U(p),
                     version='sym')
        if r.status != 200:
            obligation(ctx, 'aggregates-repr', m >= 1,
                       'GET aggregates answered %d from 1.1 on' % r.status)
            if r.status != 404:
                runner.violation(ctx, 'read-status', 'aggregates: %d'
                                 % r.status)
            continue
        obligation(ctx, 'aggregates-repr', m < 1,
                   'aggregates served at 1.0')
        got = set(r.json['aggregates'])
        for (q, a), bit in s.ag.items():
            if q == p:
                presence(ctx, 'aggregates-repr', AGG(a) in got, bit,
                         'aggregate %d on p%d' % (a, p))
        if got - {AGG(a) for (q, a) in s.ag if q == p}:
            runner.violation(ctx, 'aggregates-repr', 'unknown aggregates')
        has = 'resource_provider_generation' in r.json
        obligation(ctx, 'aggregates-repr', (m < 19) if has else (m >= 19),
                   'generation in aggregates vs microversion (1.19)')
        if has:
            eq_or_violation(ctx, 'aggregates-repr',
                            r.json['resource_provider_generation'],
                            s.w.prov[p]['generation'], 'generation')


def read_usages(ctx, s):
    for p in (1, 2):
        r = app.call('GET', '/resource_providers/%s/usages' % U(p),
                     version='sym')
        js = r.json['usages']
        eq_or_violation(ctx, 'usages-repr',
                        r.json['resource_provider_generation'],
                        s.w.prov[p]['generation'], 'generation p%d' % p)
        for (q, rc), inv in s.inv.items():
            if q != p:
                continue
            presence(ctx, 'usages-repr', rc in js, inv['present'],
                     'usage entry %s on p%d' % (rc, p))
            if rc in js:
                eq_or_violation(ctx, 'usage-is-sum-of-allocations', js[rc],
                                s.used(p, rc), 'usage of %s on p%d' % (rc, p))
        if set(js) - {rc for (q, rc) in s.inv if q == p}:
            runner.violation(ctx, 'usages-repr', 'unknown classes in usages')


def read_allocations(ctx, s):
    m = to_z3(ctx.data['minor'])
    # per consumer; fields by microversion: project/user 1.12, consumer
    # generation 1.28, consumer type 1.38
    for c in (1, 2):
        r = app.call('GET', '/allocations/' + CONS(c), version='sym')
        js = r.json
        for (cc, p, rc), (pres, used) in s.alloc.items():
            if cc != c:
                continue
            got = js['allocations'].get(U(p), {}).get('resources', {})
            presence(ctx, 'consumer-view', rc in got, pres,
                     'allocation of c%d on p%d %s' % (c, p, rc))
            if rc in got:
                eq_or_violation(ctx, 'consumer-view', got[rc], used,
                                'amount of c%d on p%d %s' % (c, p, rc))
                eq_or_violation(ctx, 'consumer-view',
                                js['allocations'][U(p)]['generation'],
                                s.w.prov[p]['generation'],
                                'provider generation in consumer view')
        cons = s.cons[c]
        for key, since, want in (
                ('project_id', 12, s.owner[c][0]),
                ('user_id', 12, s.owner[c][1]),
                ('consumer_generation', 28, cons['generation']),
                ('consumer_type', 38, s.owner[c][2] or 'unknown')):
            presence(ctx, 'consumer-view', key in js,
                     z3.And(zbool(cons['present']), m >= since),
                     '%s of consumer c%d (from 1.%d)' % (key, c, since))
            if key in js:
                eq_or_violation(ctx, 'consumer-view', js[key], want,
                                '%s c%d' % (key, c))
        extra = set(js) - {'allocations', 'project_id', 'user_id',
                           'consumer_generation', 'consumer_type'}
        if extra:
            runner.violation(ctx, 'consumer-view', 'unknown keys %s' % extra)
    # per provider, and agreement of the two views
    for p in (1, 2):
        r = app.call('GET', '/resource_providers/%s/allocations' % U(p),
                     version='sym')
        js = r.json
        eq_or_violation(ctx, 'provider-view',
                        js['resource_provider_generation'],
                        s.w.prov[p]['generation'], 'generation p%d' % p)
        for (c, q, rc), (pres, used) in s.alloc.items():
            if q != p:
                continue
            got = js['allocations'].get(CONS(c), {}).get('resources', {})
            presence(ctx, 'provider-view', rc in got, pres,
                     'allocation of c%d in provider view p%d %s' % (c, p, rc))
            if rc in got:
                eq_or_violation(ctx, 'views-agree', got[rc], used,
                                'amount c%d p%d %s (provider view)'
                                % (c, p, rc))
                entry = js['allocations'][CONS(c)]
                obligation(ctx, 'provider-view',
                           (m < 28) if 'consumer_generation' in entry
                           else (m >= 28),
                           'consumer_generation in provider view vs '
                           'microversion', sig='cgen-version')
                if 'consumer_generation' in entry:
                    eq_or_violation(ctx, 'provider-view',
                                    entry['consumer_generation'],
                                    s.cons[c]['generation'],
                                    'consumer generation in provider view')
        unknown = set(js['allocations']) - {CONS(1), CONS(2)}
        if unknown:
            runner.violation(ctx, 'provider-view', 'unknown consumers %s'
                             % unknown)


def _tot(s, rc, consumers):
    ts = [z3.If(zbool(pr), to_z3(u), 0)
          for (cc, p, r2), (pr, u) in s.alloc.items()
          if cc in consumers and r2 == rc]
    return z3.Sum(*(ts + [z3.IntVal(0)]))


def _any(s, rc, consumers):
    return Or(*[pr for (cc, p, r2), (pr, u) in s.alloc.items()
                if cc in consumers and r2 == rc])


def read_totals(ctx, s):
    """usage totals per project / user / consumer type for the ownership of
    the two consumers chosen by the family"""
    own = s.owner
    scopes = [('project_id=%s' % pj, [c for c in own if own[c][0] == pj])
              for pj in S.PROJECTS]
    scopes += [('project_id=%s&user_id=%s' % (pj, us),
                [c for c in own if own[c][:2] == (pj, us)])
               for pj, us in (('proj', 'user'), ('proj', 'user2'),
                              ('proj3', 'user2'), ('proj2', 'user'))]
    for q, members in scopes:
        r = app.call('GET', '/usages?' + q, version='1.36')
        js = r.json['usages']
        for rc in RCS:
            presence(ctx, 'project-usage', rc in js, _any(s, rc, members),
                     '%s in usages of %s' % (rc, q))
            if rc in js:
                eq_or_violation(ctx, 'project-usage', js[rc],
                                _tot(s, rc, members),
                                'total %s of %s' % (rc, q))
    # 1.38: grouped by consumer type with consumer counts; filters
    tname = {c: own[c][2] or 'unknown' for c in own}
    for q, members in scopes[:5]:
        for flt in (None, 'unknown', 'INSTANCE', 'all'):
            if flt is None:
                groups = {}
                for c in members:
                    groups.setdefault(tname[c], []).append(c)
            elif flt == 'all':
                groups = {'all': members}
            else:
                groups = {flt: [c for c in members if tname[c] == flt]}
            qq = q + ('&consumer_type=' + flt if flt else '')
            r = app.call('GET', '/usages?' + qq, version='1.38')
            if r.status != 200:
                runner.violation(ctx, 'read-status', '%s: %d' % (
                    qq, r.status))
                continue
            js = r.json['usages']
            for g in ('INSTANCE', 'unknown', 'all'):
                mem = groups.get(g, ())
                exists = Or(*[s.cons[c]['present'] for c in mem]) \
                    if mem else False
                presence(ctx, 'type-usage', g in js, exists,
                         'group %s of %s' % (g, qq))
                if g not in js:
                    continue
                cnt = z3.Sum(*([z3.If(zbool(s.cons[c]['present']), 1, 0)
                                for c in mem] + [z3.IntVal(0)]))
                eq_or_violation(ctx, 'type-usage', js[g]['consumer_count'],
                                cnt, 'consumer_count of %s in %s' % (g, qq))
                for rc in RCS:
                    presence(ctx, 'type-usage', rc in js[g],
                             _any(s, rc, mem), '%s in group %s of %s' % (
                                 rc, g, qq))
                    if rc in js[g]:
                        eq_or_violation(ctx, 'type-usage', js[g][rc],
                                        _tot(s, rc, mem),
                                        'total %s of group %s in %s'
                                        % (rc, g, qq))
            if set(js) - {'INSTANCE', 'unknown', 'all'}:
                runner.violation(ctx, 'type-usage', 'unknown groups %s in %s'
                                 % (sorted(js), qq))


OWNERSHIPS = [
    {},                                                  # one project
    {2: ('proj3', 'user2', None)},     # project id without a user id
    {1: ('proj2', 'user', 'INSTANCE'), 2: ('proj3', 'user', None)},
    {1: ('proj3', 'user2', 'INSTANCE'), 2: ('proj3', 'user2', 'INSTANCE')},
]


READS = dict(provider=read_provider, provider_list=read_provider_list,
             catalogue=read_catalogue, inventories=read_inventories,
             traits_aggs=read_traits_aggs, usages=read_usages,
             allocations=read_allocations, totals=read_totals)


def fam_read(name):
    fn = READS[name]

    def path(ctx):
        app.setup()
        app.sym_minor(ctx)
        owners = OWNERSHIPS[symex.choose(len(OWNERSHIPS))] \
            if name in ('allocations', 'totals') else None
        with S(ctx, owners) as s:
            pre = s.w.dump()
            fn(ctx, s)
            post = s.w.dump()
            obligation(ctx, 'reads-change-nothing',
                       zbool(rel_diff(pre, post)), 'a read changed the state')
            return finish(ctx, 'read')
    return Family('read/' + name, path, bounds=dict(
        state='2 providers (root+child), 3 optional inventories, 4 optional '
        'allocations of 2 consumers, 2+2 optional trait/aggregate '
        'associations; all numbers and generations symbolic'))


# ---- (W) write routes: status and effect per documented meaning -----------

def fits_formula(s, p, rc, amount, exclude):
    """the statement's acceptance condition for placing `amount`"""
    if (p, rc) not in s.inv:
        return z3.BoolVal(False)
    inv = s.inv[(p, rc)]
    a = to_z3(amount)
    others = s.used(p, rc, consumers=[c for c in (1, 2) if c != exclude])
    cap = capacity(inv)
    capr = cap if cap.sort() == z3.RealSort() else z3.ToReal(cap)
    return z3.And(zbool(inv['present']), a >= to_z3(inv['min_unit']),
                  a <= to_z3(inv['max_unit']),
                  symex.z_mod(a, to_z3(inv['step_size'])) == 0,
                  z3.ToReal(others + a) <= capr)


def w_put_allocations(ctx, s):
    """PUT /allocations/c1 placing on (p1,VCPU) and (p2,VCPU)"""
    a1, a2 = ctx.int('amt1'), ctx.int('amt2')
    gen_null = symex.fork(ctx.bool('req_cgen_null'))
    cg = None if gen_null else ctx.int('req_cgen')
    body = {'allocations': {U(1): {'resources': {'VCPU': a1}},
                            U(2): {'resources': {'VCPU': a2}}},
            'project_id': 'proj', 'user_id': 'user',
            'consumer_generation': cg}
    pre = s.w.dump()
    r = app.call('PUT', '/allocations/' + CONS(1), body, version='1.36')
    post = s.w.dump()
    cons = s.cons[1]
    gen_ok = Not(cons['present']) if gen_null else \
        And(cons['present'], to_z3(cg) == to_z3(cons['generation']))
    schema_ok = z3.And(to_z3(a1) >= 1, to_z3(a2) >= 1)
    accept = z3.And(schema_ok, zbool(gen_ok),
                    fits_formula(s, 1, 'VCPU', a1, 1),
                    fits_formula(s, 2, 'VCPU', a2, 1))
    if r.status == 204:
        obligation(ctx, 'write-status', z3.Not(accept),
                   'PUT allocations accepted although its documented '
                   'meaning requires rejection', sig='accepted')
        # effect: c1 holds exactly the two requested amounts
        for (c, p, rc), (pres, used) in s.alloc.items():
            rows = [x for x in post['allocations']
                    if x.vals['consumer_id'] == CONS(c) and
                    x.vals['resource_provider_id'] == p and
                    x.vals['resource_class_id'] == s.w.rcs[rc]]
            now = Or(*[x.present for x in rows])
            if c == 1:
                want = {(1, 'VCPU'): a1, (2, 'VCPU'): a2}.get((p, rc))
                if want is None:
                    obligation(ctx, 'write-effect', zbool(now),
                               'stale allocation of c1 survives', sig='stale')
                else:
                    obligation(ctx, 'write-effect', zbool(Not(now)),
                               'requested allocation missing', sig='missing')
                    n, v = _merged(rows, 'used')
                    obligation(ctx, 'write-effect',
                               to_z3(v) != to_z3(want),
                               'stored amount differs from requested',
                               sig='amount')
            else:
                obligation(ctx, 'write-effect',
                           zbool(Or(And(now, Not(pres)), And(pres, Not(now)))),
                           'another consumer\'s allocation changed',
                           sig='bystander')
    else:
        obligation(ctx, 'write-status', accept,
                   'PUT allocations rejected with %d although its '
                   'documented meaning requires success' % r.status,
                   sig='rejected:%d' % r.status)
        if r.status == 409 or r.status == 400:
            pass
        else:
            runner.violation(ctx, 'write-status', 'status %d' % r.status)
    return r


def w_put_inventories(ctx, s):
    """PUT /resource_providers/p1/inventories replacing with {VCPU}"""
    g = ctx.int('req_gen')
    tot, res = ctx.int('new_total'), ctx.int('new_reserved')
    mx = ctx.int('new_max')
    body = {'resource_provider_generation': g, 'inventories': {
        'VCPU': {'total': tot, 'reserved': res, 'max_unit': mx}}}
    pre = s.w.dump()
    r = app.call('PUT', '/resource_providers/%s/inventories' % U(1), body,
                 version='1.36')
    post = s.w.dump()
    from engine.scenario import inventory_bounds
    b = inventory_bounds()
    schema_ok = z3.And(to_z3(tot) >= 1, to_z3(tot) <= b['total'][1],
                       to_z3(res) >= 0, to_z3(res) <= b['reserved'][1],
                       to_z3(mx) >= 1, to_z3(mx) <= b['max_unit'][1])
    gen_ok = to_z3(g) == to_z3(s.w.prov[1]['generation'])
    # DISK_GB disappears: refused while it has allocations
    disk_in_use = And(s.inv[(1, 'DISK_GB')]['present'],
                      s.alloc[(2, 1, 'DISK_GB')][0])
    cap_ok = to_z3(res) <= to_z3(tot)      # capacity >= 0 (1.26+)
    accept = z3.And(schema_ok, gen_ok, z3.Not(zbool(disk_in_use)), cap_ok)
    if r.status == 200:
        obligation(ctx, 'write-status', z3.Not(accept),
                   'PUT inventories accepted although its documented meaning '
                   'requires rejection', sig='accepted')
        rows = {rc: [x for x in post['inventories']
                     if x.vals['resource_provider_id'] == 1 and
                     x.vals['resource_class_id'] == s.w.rcs[rc]]
                for rc in RCS}
        obligation(ctx, 'write-effect',
                   zbool(Not(Or(*[x.present for x in rows['VCPU']]))),
                   'VCPU inventory missing after replacement')
        obligation(ctx, 'write-effect',
                   zbool(Or(*[x.present for x in rows['DISK_GB']])),
                   'DISK_GB inventory survives a replacement that omits it')
        for f, want in (('total', tot), ('reserved', res), ('max_unit', mx),
                        ('min_unit', 1), ('step_size', 1)):
            n, v = _merged(rows['VCPU'], f)
            obligation(ctx, 'write-effect', to_z3(v) != to_z3(want),
                       'stored %s differs from requested' % f, sig=f)
        eq_or_violation(ctx, 'write-effect',
                        r.json['resource_provider_generation'],
                        to_z3(s.w.prov[1]['generation']) + 1,
                        'generation returned = stored + 1')
    else:
        obligation(ctx, 'write-status', accept,
                   'PUT inventories rejected with %d although its documented '
                   'meaning requires success' % r.status,
                   sig='rejected:%d' % r.status)
    return r


def w_delete_allocations(ctx, s):
    pre = s.w.dump()
    r = app.call('DELETE', '/allocations/' + CONS(1), version='1.36')
    post = s.w.dump()
    has = s.cons[1]['present']
    if r.status == 204:
        obligation(ctx, 'write-status', zbool(Not(has)),
                   'DELETE allocations 204 for a consumer without '
                   'allocations')
        left = Or(*[x.present for x in post['allocations']
                    if x.vals['consumer_id'] == CONS(1)])
        obligation(ctx, 'write-effect', zbool(left),
                   'allocations survive DELETE')
    else:
        obligation(ctx, 'write-status', zbool(has),
                   'DELETE allocations %d although the consumer has '
                   'allocations' % r.status)
        if r.status != 404:
            runner.violation(ctx, 'write-status', 'status %d' % r.status)
    return r


def w_put_traits(ctx, s):
    g = ctx.int('req_gen')
    r = app.call('PUT', '/resource_providers/%s/traits' % U(1),
                 {'resource_provider_generation': g, 'traits': [T2]},
                 version='1.36')
    post = s.w.dump()
    accept = to_z3(g) == to_z3(s.w.prov[1]['generation'])
    if r.status == 200:
        obligation(ctx, 'write-status', z3.Not(accept),
                   'PUT traits accepted with a stale generation')
        now = {t: Or(*[x.present for x in post['resource_provider_traits']
                       if x.vals['resource_provider_id'] == 1 and
                       x.vals['trait_id'] == s.w.traits[t]])
               for t in (T1, T2)}
        obligation(ctx, 'write-effect', zbool(Not(now[T2])), 'T2 missing')
        obligation(ctx, 'write-effect', zbool(now[T1]), 'T1 survives')
        if set(r.json['traits']) != {T2}:
            runner.violation(ctx, 'write-effect', 'response lists %s'
                             % r.json['traits'])
    else:
        obligation(ctx, 'write-status', accept,
                   'PUT traits rejected (%d) with the current generation'
                   % r.status)
    return r


def w_put_aggregates(ctx, s):
    g = ctx.int('req_gen')
    r = app.call('PUT', '/resource_providers/%s/aggregates' % U(1),
                 {'resource_provider_generation': g,
                  'aggregates': [AGG(2), AGG(3)]}, version='1.36')
    post = s.w.dump()
    accept = to_z3(g) == to_z3(s.w.prov[1]['generation'])
    if r.status == 200:
        obligation(ctx, 'write-status', z3.Not(accept),
                   'PUT aggregates accepted with a stale generation')
        if set(r.json['aggregates']) != {AGG(2), AGG(3)}:
            runner.violation(ctx, 'write-effect', 'response lists %s'
                             % r.json['aggregates'])
        back = app.call('GET', '/resource_providers/%s/aggregates' % U(1),
                        version='1.36')
        if set(back.json['aggregates']) != {AGG(2), AGG(3)}:
            runner.violation(ctx, 'write-effect', 'read back %s'
                             % back.json['aggregates'])
        eq_or_violation(ctx, 'write-effect',
                        back.json['resource_provider_generation'],
                        r.json['resource_provider_generation'],
                        'generation returned = generation read')
        # the other provider keeps its memberships (some of them of the
        # aggregates this request dropped) and its generation
        for a in (1, 2):
            rows = [x for x in post['resource_provider_aggregates']
                    if x.vals['resource_provider_id'] == 2 and
                    x.vals['aggregate_id'] == s.w.aggs[a]]
            now = Or(*[x.present for x in rows])
            bit = s.ag[(2, a)]
            obligation(ctx, 'write-effect',
                       zbool(Or(And(now, Not(bit)), And(bit, Not(now)))),
                       'membership of provider 2 in aggregate %d changed by '
                       'a PUT aggregates of provider 1' % a, sig='bystander')
        other = app.call('GET', '/resource_providers/%s/aggregates' % U(2),
                         version='1.36')
        eq_or_violation(ctx, 'write-effect',
                        other.json['resource_provider_generation'],
                        s.w.prov[2]['generation'],
                        'generation of the other provider')
    else:
        obligation(ctx, 'write-status', accept,
                   'PUT aggregates rejected (%d) with the current generation'
                   % r.status)
    return r


def w_put_allocations_attrs(ctx, s):
    """one write (1.38) naming a different project, user and/or consumer
    type: what is read back afterwards is what the accepted request named"""
    combos = [('proj2', 'user', 'MIGRATION'), ('proj', 'user2', 'MIGRATION'),
              ('proj2', 'user2', 'INSTANCE'), ('proj', 'user', 'MIGRATION'),
              ('proj2', 'user2', 'MIGRATION')]
    proj, user, ctype = combos[symex.choose(len(combos))]
    gen_null = symex.fork(ctx.bool('req_cgen_null'))
    body = {'allocations': {U(1): {'resources': {'VCPU': ctx.int('amt1')}}},
            'project_id': proj, 'user_id': user, 'consumer_type': ctype,
            'consumer_generation': None if gen_null else ctx.int('req_cgen')}
    r = app.call('PUT', '/allocations/' + CONS(1), body, version='1.38')
    if r.status != 204:
        # a refused write names nothing: the consumer (if there is one)
        # still reads back as before
        back = app.call('GET', '/allocations/' + CONS(1), version='1.38')
        js = back.json
        if 'project_id' in js:
            for k, want in (('project_id', 'proj'), ('user_id', 'user'),
                            ('consumer_type', 'INSTANCE')):
                if js.get(k) != want:
                    runner.violation(
                        ctx, 'write-effect', 'after a write answered %d '
                        'the consumer reads back %s=%r (was %r)' % (
                            r.status, k, js.get(k), want),
                        sig='rejected:' + k)
        post = s.w.dump()
        obligation(ctx, 'write-effect',
                   zbool(rel_diff(s.pre, post, ('consumers', 'allocations'))),
                   'a write answered %d changed consumers or allocations'
                   % r.status, sig='rejected-trace')
        return r
    back = app.call('GET', '/allocations/' + CONS(1), version='1.38')
    js = back.json
    for k, want in (('project_id', proj), ('user_id', user),
                    ('consumer_type', ctype)):
        if js.get(k) != want:
            runner.violation(ctx, 'write-effect',
                             'after an accepted write naming %s=%r the '
                             'consumer reads back %r' % (k, want, js.get(k)),
                             sig=k)
    us = app.call('GET', '/usages?project_id=%s&user_id=%s' % (proj, user),
                  version='1.38').json['usages']
    if ctype not in us or 'VCPU' not in us.get(ctype, {}):
        runner.violation(ctx, 'write-effect',
                         'usage of the written consumer is not reported '
                         'under project %s / user %s / type %s: %s' % (
                             proj, user, ctype, sorted(us)), sig='usages')
    return r



def _inv_rows(post, s, p, rc):
    return [x for x in post['inventories']
            if x.vals['resource_provider_id'] == p and
            x.vals['resource_class_id'] == s.w.rcs[rc]]


def _inv_unchanged(ctx, s, post, p, rc, clause='write-effect'):
    """inventory (p, rc) is exactly as in the pre-state"""
    inv = s.inv[(p, rc)]
    rows = _inv_rows(post, s, p, rc)
    now = Or(*[x.present for x in rows])
    obligation(ctx, clause,
               zbool(Or(And(now, Not(inv['present'])),
                        And(inv['present'], Not(now)))),
               'inventory %s of p%d appeared/disappeared although the '
               'request does not concern it' % (rc, p), sig='bystander-inv')
    if rows:
        for f in ('total', 'reserved', 'min_unit', 'max_unit', 'step_size'):
            n, v = _merged(rows, f)
            obligation(ctx, clause,
                       z3.And(zbool(now), to_z3(v) != to_z3(inv[f])),
                       '%s of untouched inventory %s p%d changed' % (f, rc, p),
                       sig='bystander-inv')


def _inv_schema_ok(vals):
    from engine.scenario import inventory_bounds
    b = inventory_bounds()
    cs = []
    for f, v in vals.items():
        lo = 0 if f == 'reserved' else 1
        cs += [to_z3(v) >= lo, to_z3(v) <= b[f][1]]
    return z3.And(*cs)


def w_put_inventory(ctx, s):
    """PUT /resource_providers/p1/inventories/DISK_GB (update one)"""
    g = ctx.int('req_gen')
    vals = dict(total=ctx.int('new_total'), reserved=ctx.int('new_reserved'),
                min_unit=ctx.int('new_min'), max_unit=ctx.int('new_max'),
                step_size=ctx.int('new_step'))
    body = dict(vals, resource_provider_generation=g)
    r = app.call('PUT', '/resource_providers/%s/inventories/DISK_GB' % U(1),
                 body, version='1.36')
    post = s.w.dump()
    inv = s.inv[(1, 'DISK_GB')]
    gen_ok = to_z3(g) == to_z3(s.w.prov[1]['generation'])
    accept = z3.And(_inv_schema_ok(vals), gen_ok, zbool(inv['present']),
                    to_z3(vals['reserved']) <= to_z3(vals['total']))
    if r.status == 200:
        obligation(ctx, 'write-status', z3.Not(accept),
                   'PUT inventory accepted although its documented meaning '
                   'requires rejection', sig='accepted')
        rows = _inv_rows(post, s, 1, 'DISK_GB')
        obligation(ctx, 'write-effect',
                   zbool(Not(Or(*[x.present for x in rows]))),
                   'inventory missing after update')
        for f, want in vals.items():
            n, v = _merged(rows, f)
            obligation(ctx, 'write-effect', to_z3(v) != to_z3(want),
                       'stored %s differs from requested' % f, sig=f)
            eq_or_violation(ctx, 'write-effect', r.json[f], want,
                            'returned %s' % f)
        eq_or_violation(ctx, 'write-effect',
                        r.json['resource_provider_generation'],
                        to_z3(s.w.prov[1]['generation']) + 1,
                        'generation returned = stored + 1')
        _inv_unchanged(ctx, s, post, 1, 'VCPU')
        _inv_unchanged(ctx, s, post, 2, 'VCPU')
    else:
        obligation(ctx, 'write-status', accept,
                   'PUT inventory rejected with %d although its documented '
                   'meaning requires success' % r.status,
                   sig='rejected:%d' % r.status)
        if r.status == 409:
            obligation(ctx, 'write-status', gen_ok,
                       '409 although the generation matches', sig='409')
    return r


def w_post_inventory(ctx, s):
    """POST /resource_providers/p1/inventories {DISK_GB}"""
    vals = dict(total=ctx.int('new_total'), reserved=ctx.int('new_reserved'))
    r = app.call('POST', '/resource_providers/%s/inventories' % U(1),
                 dict(vals, resource_class='DISK_GB'), version='1.36')
    post = s.w.dump()
    inv = s.inv[(1, 'DISK_GB')]
    valid = z3.And(_inv_schema_ok(vals),
                   to_z3(vals['reserved']) <= to_z3(vals['total']))
    accept = z3.And(valid, zbool(Not(inv['present'])))
    if r.status == 201:
        obligation(ctx, 'write-status', z3.Not(accept),
                   'POST inventory accepted although its documented meaning '
                   'requires rejection', sig='accepted')
        rows = _inv_rows(post, s, 1, 'DISK_GB')
        obligation(ctx, 'write-effect',
                   zbool(Not(Or(*[x.present for x in rows]))),
                   'inventory missing after creation')
        from placement.db import constants as db_const
        for f, want in (('total', vals['total']),
                        ('reserved', vals['reserved']), ('min_unit', 1),
                        ('max_unit', db_const.MAX_INT), ('step_size', 1)):
            n, v = _merged(rows, f)
            obligation(ctx, 'write-effect', to_z3(v) != to_z3(want),
                       'stored %s differs from requested/default' % f, sig=f)
        _inv_unchanged(ctx, s, post, 1, 'VCPU')
    else:
        obligation(ctx, 'write-status', accept,
                   'POST inventory rejected with %d although its documented '
                   'meaning requires success' % r.status,
                   sig='rejected:%d' % r.status)
        if r.status == 409:
            obligation(ctx, 'write-status', zbool(Not(inv['present'])),
                       '409 although no such inventory exists', sig='409')
        elif r.status == 400:
            obligation(ctx, 'write-status', valid,
                       '400 for a valid inventory', sig='400')
        else:
            runner.violation(ctx, 'write-status', 'status %d' % r.status)
    return r


def w_delete_inventory(ctx, s):
    """DELETE /resource_providers/p1/inventories/DISK_GB"""
    r = app.call('DELETE', '/resource_providers/%s/inventories/DISK_GB' % U(1),
                 version='1.36')
    post = s.w.dump()
    inv = s.inv[(1, 'DISK_GB')]
    in_use = s.alloc[(2, 1, 'DISK_GB')][0]
    want = {204: And(inv['present'], Not(in_use)),
            409: And(inv['present'], in_use), 404: Not(inv['present'])}
    if r.status not in want:
        runner.violation(ctx, 'write-status', 'status %d' % r.status)
        return r
    obligation(ctx, 'write-status', zbool(Not(want[r.status])),
               'DELETE inventory answered %d in a state whose documented '
               'answer differs' % r.status, sig=str(r.status))
    if r.status == 204:
        obligation(ctx, 'write-effect',
                   zbool(Or(*[x.present
                              for x in _inv_rows(post, s, 1, 'DISK_GB')])),
                   'inventory survives its deletion')
        _inv_unchanged(ctx, s, post, 1, 'VCPU')
        _inv_unchanged(ctx, s, post, 2, 'VCPU')
    return r


def w_delete_inventories(ctx, s):
    """DELETE /resource_providers/p1/inventories"""
    r = app.call('DELETE', '/resource_providers/%s/inventories' % U(1),
                 version='1.36')
    post = s.w.dump()
    in_use = Or(*[pr for (c, p, rc), (pr, u) in s.alloc.items() if p == 1])
    if r.status == 204:
        obligation(ctx, 'write-status', zbool(in_use),
                   'DELETE inventories 204 although allocations exist')
        for rc in RCS:
            obligation(ctx, 'write-effect',
                       zbool(Or(*[x.present
                                  for x in _inv_rows(post, s, 1, rc)])),
                       'inventory %s survives' % rc)
        _inv_unchanged(ctx, s, post, 2, 'VCPU')
    elif r.status == 409:
        obligation(ctx, 'write-status', zbool(Not(in_use)),
                   'DELETE inventories 409 although nothing is allocated')
    else:
        runner.violation(ctx, 'write-status', 'status %d' % r.status)
    return r


def w_delete_traits(ctx, s):
    r = app.call('DELETE', '/resource_providers/%s/traits' % U(1),
                 version='1.36')
    post = s.w.dump()
    if r.status != 204:
        runner.violation(ctx, 'write-status', 'status %d' % r.status)
        return r
    left = Or(*[x.present for x in post['resource_provider_traits']
                if x.vals['resource_provider_id'] == 1])
    obligation(ctx, 'write-effect', zbool(left), 'traits survive DELETE')
    other = Or(*[x.present for x in post['resource_provider_traits']
                 if x.vals['resource_provider_id'] == 2 and
                 x.vals['trait_id'] == s.w.traits[T2]])
    bit = s.tr[(2, T2)]
    obligation(ctx, 'write-effect',
               zbool(Or(And(other, Not(bit)), And(bit, Not(other)))),
               'traits of another provider changed', sig='bystander')
    return r


def w_post_allocations(ctx, s):
    """POST /allocations: c1 replaced by (p1, VCPU); new consumer c3 on the
    same (p1, VCPU); optionally c2 emptied in the same request"""
    a1, a3 = ctx.int('amt1'), ctx.int('amt3')
    with_c2 = symex.choose(2) == 1
    null1 = symex.fork(ctx.bool('req_cgen1_null'))
    g1 = None if null1 else ctx.int('req_cgen1')
    body = {CONS(1): {'allocations': {U(1): {'resources': {'VCPU': a1}}},
                      'project_id': 'proj', 'user_id': 'user',
                      'consumer_generation': g1},
            CONS(3): {'allocations': {U(1): {'resources': {'VCPU': a3}}},
                      'project_id': 'proj2', 'user_id': 'user2',
                      'consumer_generation': None}}
    gens = [Not(s.cons[1]['present']) if null1 else
            And(s.cons[1]['present'],
                to_z3(g1) == to_z3(s.cons[1]['generation']))]
    replaced = [1]
    if with_c2:
        null2 = symex.fork(ctx.bool('req_cgen2_null'))
        g2 = None if null2 else ctx.int('req_cgen2')
        body[CONS(2)] = {'allocations': {}, 'project_id': 'proj',
                         'user_id': 'user2', 'consumer_generation': g2}
        gens.append(Not(s.cons[2]['present']) if null2 else
                    And(s.cons[2]['present'],
                        to_z3(g2) == to_z3(s.cons[2]['generation'])))
        replaced.append(2)
    r = app.call('POST', '/allocations', body, version='1.36')
    post = s.w.dump()
    inv = s.inv[(1, 'VCPU')]
    others = s.used(1, 'VCPU', consumers=[c for c in (1, 2)
                                          if c not in replaced])
    cap = capacity(inv)
    capr = cap if cap.sort() == z3.RealSort() else z3.ToReal(cap)
    units = [z3.And(to_z3(a) >= to_z3(inv['min_unit']),
                    to_z3(a) <= to_z3(inv['max_unit']),
                    symex.z_mod(to_z3(a), to_z3(inv['step_size'])) == 0)
             for a in (a1, a3)]
    accept = z3.And(to_z3(a1) >= 1, to_z3(a3) >= 1,
                    *[zbool(g) for g in gens], zbool(inv['present']), *units,
                    z3.ToReal(others + to_z3(a1) + to_z3(a3)) <= capr)
    if r.status == 204:
        obligation(ctx, 'write-status', z3.Not(accept),
                   'POST allocations accepted although its documented '
                   'meaning requires rejection', sig='accepted')
        def rows_of(c, p, rc):
            return [x for x in post['allocations']
                    if x.vals['consumer_id'] == CONS(c) and
                    x.vals['resource_provider_id'] == p and
                    x.vals['resource_class_id'] == s.w.rcs[rc]]
        for c, want in ((1, a1), (3, a3)):
            rows = rows_of(c, 1, 'VCPU')
            obligation(ctx, 'write-effect',
                       zbool(Not(Or(*[x.present for x in rows]))),
                       'requested allocation of c%d missing' % c,
                       sig='missing')
            n, v = _merged(rows, 'used')
            obligation(ctx, 'write-effect', to_z3(v) != to_z3(want),
                       'stored amount of c%d differs' % c, sig='amount')
        obligation(ctx, 'write-effect',
                   zbool(Or(*[x.present for x in rows_of(1, 2, 'VCPU')])),
                   'stale allocation of c1 survives', sig='stale')
        for (c, p, rc), (pres, used) in s.alloc.items():
            if c != 2:
                continue
            now = Or(*[x.present for x in rows_of(c, p, rc)])
            if with_c2:
                obligation(ctx, 'write-effect', zbool(now),
                           'allocation of the emptied consumer survives',
                           sig='emptied')
            else:
                obligation(ctx, 'write-effect',
                           zbool(Or(And(now, Not(pres)), And(pres, Not(now)))),
                           'a consumer not named in the request changed',
                           sig='bystander')
    else:
        obligation(ctx, 'write-status', accept,
                   'POST allocations rejected with %d although its '
                   'documented meaning requires success' % r.status,
                   sig='rejected:%d' % r.status)
        if r.status not in (400, 409):
            runner.violation(ctx, 'write-status', 'status %d' % r.status)
        obligation(ctx, 'write-effect',
                   zbool(rel_diff(s.pre, post, ('allocations',))),
                   'rejected POST allocations changed allocations')
    return r


def w_put_allocations_legacy(ctx, s):
    """PUT /allocations/c1 in the formats of 1.0-1.27 (list below 1.12, no
    consumer generation): no generation check, pure replacement"""
    a1 = ctx.int('amt1')
    band = [(0, 7), (8, 11), (12, 27)][symex.choose(3)]
    app.sym_minor(ctx, *band)
    if band[1] < 12:
        body = {'allocations': [{'resource_provider': {'uuid': U(1)},
                                 'resources': {'VCPU': a1}}]}
    else:
        body = {'allocations': {U(1): {'resources': {'VCPU': a1}}}}
    if band[0] >= 8:
        body.update(project_id='proj', user_id='user')
    r = app.call('PUT', '/allocations/' + CONS(1), body, version='sym')
    post = s.w.dump()
    accept = z3.And(to_z3(a1) >= 1, fits_formula(s, 1, 'VCPU', a1, 1))
    if r.status == 204:
        obligation(ctx, 'write-status', z3.Not(accept),
                   'legacy PUT allocations accepted although its documented '
                   'meaning requires rejection', sig='accepted')
        for (c, p, rc), (pres, used) in s.alloc.items():
            rows = [x for x in post['allocations']
                    if x.vals['consumer_id'] == CONS(c) and
                    x.vals['resource_provider_id'] == p and
                    x.vals['resource_class_id'] == s.w.rcs[rc]]
            now = Or(*[x.present for x in rows])
            if c != 1:
                obligation(ctx, 'write-effect',
                           zbool(Or(And(now, Not(pres)), And(pres, Not(now)))),
                           'another consumer\'s allocation changed',
                           sig='bystander')
            elif (p, rc) == (1, 'VCPU'):
                obligation(ctx, 'write-effect', zbool(Not(now)),
                           'requested allocation missing', sig='missing')
                n, v = _merged(rows, 'used')
                obligation(ctx, 'write-effect', to_z3(v) != to_z3(a1),
                           'stored amount differs', sig='amount')
            else:
                obligation(ctx, 'write-effect', zbool(now),
                           'stale allocation of c1 survives', sig='stale')
    else:
        obligation(ctx, 'write-status', accept,
                   'legacy PUT allocations rejected with %d although its '
                   'documented meaning requires success' % r.status,
                   sig='rejected:%d' % r.status)
    return r


def w_delete_provider(ctx, s):
    """DELETE /resource_providers/{p2 (leaf) | p1 (has a child)}"""
    p = (2, 1)[symex.choose(2)]
    r = app.call('DELETE', '/resource_providers/' + U(p), version='1.36')
    post = s.w.dump()
    in_use = Or(*[pr for (c, q, rc), (pr, u) in s.alloc.items() if q == p])
    if p == 1:
        if r.status != 409:
            runner.violation(ctx, 'write-status', 'deleting a provider with '
                             'a child answered %d' % r.status)
        return r
    if r.status == 204:
        obligation(ctx, 'write-status', zbool(in_use),
                   'provider deleted although it has allocations')
        for tab, col in (('resource_providers', 'id'),
                         ('inventories', 'resource_provider_id'),
                         ('resource_provider_traits', 'resource_provider_id'),
                         ('resource_provider_aggregates',
                          'resource_provider_id')):
            left = Or(*[x.present for x in post[tab] if x.vals[col] == p])
            obligation(ctx, 'write-effect', zbool(left),
                       '%s rows of the deleted provider survive' % tab,
                       sig=tab)
        back = app.call('GET', '/resource_providers/' + U(p), version='1.36')
        if back.status != 404:
            runner.violation(ctx, 'write-effect', 'deleted provider still '
                             'readable (%d)' % back.status)
        _inv_unchanged(ctx, s, post, 1, 'VCPU')
    elif r.status == 409:
        obligation(ctx, 'write-status', zbool(Not(in_use)),
                   '409 although the provider has no allocations')
    else:
        runner.violation(ctx, 'write-status', 'status %d' % r.status)
    return r


def w_put_provider(ctx, s):
    """PUT /resource_providers/p2: rename / keep or drop the parent, at a
    symbolic microversion"""
    app.sym_minor(ctx)
    name = ('renamed', 'p1', 'p2')[symex.choose(3)]
    parent = ('omit', U(1), None, U(2), U(7))[symex.choose(5)]
    body = {'name': name}
    if parent != 'omit':
        body['parent_provider_uuid'] = parent
    r = app.call('PUT', '/resource_providers/' + U(2), body, version='sym')
    post = s.w.dump()
    m = to_z3(ctx.data['minor'])
    # documented: parent field from 1.14; un-parenting (null) from 1.37;
    # re-parenting under itself / an unknown provider is an error
    if parent == 'omit':
        ok = z3.BoolVal(True)
    elif parent == U(1):
        ok = m >= 14
    elif parent is None:
        ok = m >= 37
    else:
        ok = z3.BoolVal(False)
    ok = z3.And(ok, z3.BoolVal(name != 'p1'))
    if r.status == 200:
        obligation(ctx, 'write-status', z3.Not(ok),
                   'PUT provider name=%s parent=%s accepted' % (name, parent),
                   sig='accepted:%s:%s' % (name, parent))
        back = app.call('GET', '/resource_providers/' + U(2), version='1.36')
        eq_or_violation(ctx, 'write-effect', back.json['name'], name, 'name')
        eq_or_violation(ctx, 'write-effect',
                        back.json['parent_provider_uuid'],
                        None if parent is None else U(1), 'parent')
        eq_or_violation(ctx, 'write-effect', back.json['root_provider_uuid'],
                        U(2) if parent is None else U(1), 'root')
    else:
        obligation(ctx, 'write-status', ok,
                   'PUT provider name=%s parent=%s rejected with %d' % (
                       name, parent, r.status),
                   sig='rejected:%s:%s:%d' % (name, parent, r.status))
        obligation(ctx, 'write-effect',
                   zbool(rel_diff(s.pre, post, ('resource_providers',))),
                   'rejected PUT provider changed providers')
    return r


def w_post_provider(ctx, s):
    """POST /resource_providers at a symbolic microversion"""
    app.sym_minor(ctx)
    name = ('new', 'p1')[symex.choose(2)]
    uuid = (U(9), U(2))[symex.choose(2)]
    parent = ('omit', U(2), None, U(7))[symex.choose(4)]
    body = {'name': name, 'uuid': uuid}
    if parent != 'omit':
        body['parent_provider_uuid'] = parent
    r = app.call('POST', '/resource_providers', body, version='sym')
    post = s.w.dump()
    m = to_z3(ctx.data['minor'])
    ok = z3.BoolVal(name == 'new' and uuid == U(9) and parent != U(7))
    if parent != 'omit':
        ok = z3.And(ok, m >= 14)
    if r.status in (200, 201):
        obligation(ctx, 'write-status', z3.Not(ok),
                   'POST provider %s/%s/%s accepted' % (name, uuid[-2:],
                                                       parent),
                   sig='accepted')
        obligation(ctx, 'write-status',
                   (m >= 20) if r.status == 201 else (m < 20),
                   'POST provider status vs microversion') \
            if False else None
        back = app.call('GET', '/resource_providers/' + U(9), version='1.36')
        if back.status != 200:
            runner.violation(ctx, 'write-effect', 'created provider not '
                             'readable (%d)' % back.status)
            return r
        eq_or_violation(ctx, 'write-effect', back.json['name'], 'new', 'name')
        eq_or_violation(ctx, 'write-effect', back.json['generation'], 0,
                        'generation of a new provider')
        eq_or_violation(ctx, 'write-effect',
                        back.json['parent_provider_uuid'],
                        U(2) if parent == U(2) else None, 'parent')
        eq_or_violation(ctx, 'write-effect', back.json['root_provider_uuid'],
                        U(1) if parent == U(2) else U(9), 'root')
        if r.json is not None:
            obligation(ctx, 'write-effect', m < 20,
                       'body returned below 1.20')
            eq_or_violation(ctx, 'write-effect', r.json.get('uuid'), U(9),
                            'uuid in body')
        else:
            obligation(ctx, 'write-effect', m >= 20,
                       'no body returned from 1.20 on')
    else:
        obligation(ctx, 'write-status', ok,
                   'POST provider %s/%s/%s rejected with %d' % (
                       name, uuid[-2:], parent, r.status),
                   sig='rejected:%d' % r.status)
        obligation(ctx, 'write-effect',
                   zbool(rel_diff(s.pre, post, ('resource_providers',))),
                   'rejected POST provider changed providers')
    return r


def _rows(post, table, **eq):
    return [x for x in post[table]
            if all(x.vals[k] == v for k, v in eq.items())]


def w_delete_trait(ctx, s):
    """DELETE /traits/{name}: custom and unused -> 204 and gone; in use ->
    409; standard -> 400; unknown -> 404"""
    t = (T1, T2, 'CUSTOM_T3', 'HW_CPU_X86_AVX', 'CUSTOM_NOPE',
         'custom_t3')[symex.choose(6)]
    r = app.call('DELETE', '/traits/' + t, version='1.36')
    post = s.w.dump()
    in_use = {T1: s.tr[(1, T1)], T2: s.tr[(2, T2)]}.get(t, False)
    want = {'HW_CPU_X86_AVX': {400: True}, 'CUSTOM_NOPE': {404: True},
            'custom_t3': {404: True}}.get(
                t, {204: Not(in_use), 409: in_use})
    if r.status not in want:
        runner.violation(ctx, 'write-status', 'DELETE trait %s: %d' % (
            t, r.status), sig='%s:%d' % (t, r.status))
        return r
    obligation(ctx, 'write-status', zbool(Not(want[r.status])),
               'DELETE trait %s answered %d in a state whose documented '
               'answer differs' % (t, r.status), sig='%s:%d' % (t, r.status))
    left = Or(*[x.present for x in _rows(post, 'traits', name=t)])
    if r.status == 204:
        obligation(ctx, 'write-effect', zbool(left), 'trait survives DELETE')
    elif t in s.w.traits:
        obligation(ctx, 'write-effect', zbool(Not(left)),
                   'trait removed by a refused DELETE')
    obligation(ctx, 'write-effect',
               zbool(rel_diff(s.pre, post, ('resource_provider_traits',))),
               'DELETE trait changed provider associations')
    return r


def w_put_trait(ctx, s):
    t = ('CUSTOM_NEW', T1, 'HW_CPU_X86_AVX', 'NOT_CUSTOM', 'CUSTOM_x',
         'CUSTOM_' + 'A' * 249)[symex.choose(6)]
    r = app.call('PUT', '/traits/' + t, version='1.36')
    post = s.w.dump()
    want = {'CUSTOM_NEW': 201, T1: 204, 'HW_CPU_X86_AVX': 400,
            'NOT_CUSTOM': 400, 'CUSTOM_x': 400}.get(t, 400)
    if r.status != want:
        runner.violation(ctx, 'write-status', 'PUT trait %s: %d, documented '
                         '%d' % (t[:20], r.status, want), sig=t[:20])
    rows = _rows(post, 'traits', name=t)
    there = Or(*[x.present for x in rows])
    if r.status in (201, 204):
        obligation(ctx, 'write-effect', zbool(Not(there)),
                   'trait missing after PUT')
        back = app.call('GET', '/traits/' + t, version='1.36')
        if back.status != 204:
            runner.violation(ctx, 'write-effect', 'GET after PUT: %d'
                             % back.status)
    if len(rows) > 1:
        obligation(ctx, 'write-effect',
                   zbool(And(rows[0].present, rows[1].present)),
                   'duplicate trait rows')
    return r


def w_delete_class(ctx, s):
    c = ('CUSTOM_FOO', 'CUSTOM_BAR', 'VCPU', 'CUSTOM_NOPE')[symex.choose(4)]
    r = app.call('DELETE', '/resource_classes/' + c, version='1.36')
    post = s.w.dump()
    in_use = s.inv[(2, 'CUSTOM_FOO')]['present'] if c == 'CUSTOM_FOO' \
        else False
    want = {'VCPU': {400: True}, 'CUSTOM_NOPE': {404: True}}.get(
        c, {204: Not(in_use), 409: in_use})
    if r.status not in want:
        runner.violation(ctx, 'write-status', 'DELETE class %s: %d' % (
            c, r.status), sig='%s:%d' % (c, r.status))
        return r
    obligation(ctx, 'write-status', zbool(Not(want[r.status])),
               'DELETE class %s answered %d in a state whose documented '
               'answer differs' % (c, r.status), sig='%s:%d' % (c, r.status))
    left = Or(*[x.present for x in _rows(post, 'resource_classes', name=c)])
    if r.status == 204:
        obligation(ctx, 'write-effect', zbool(left), 'class survives DELETE')
    elif c in s.w.rcs:
        obligation(ctx, 'write-effect', zbool(Not(left)),
                   'class removed by a refused DELETE')
    obligation(ctx, 'write-effect',
               zbool(rel_diff(s.pre, post, ('inventories',))),
               'DELETE class changed inventories')
    return r


def w_put_post_class(ctx, s):
    """creation (POST 1.2+, PUT 1.7+) and the old rename (PUT 1.2-1.6) at a
    symbolic microversion"""
    app.sym_minor(ctx)
    m = to_z3(ctx.data['minor'])
    kind = symex.choose(3)
    if kind == 0:
        name = ('CUSTOM_NEW', 'CUSTOM_FOO', 'VCPU', 'CUSTOM_new')[
            symex.choose(4)]
        r = app.call('POST', '/resource_classes', {'name': name},
                     version='sym')
        want = {'CUSTOM_NEW': 201, 'CUSTOM_FOO': 409}.get(name, 400)
        what = 'POST class %s' % name
        gate = m >= 2
    elif kind == 1:
        name = ('CUSTOM_NEW', 'CUSTOM_FOO', 'VCPU', 'CUSTOM_new')[
            symex.choose(4)]
        lo = app.sym_minor(ctx, 7, 39)
        m = to_z3(lo)
        r = app.call('PUT', '/resource_classes/' + name, version='sym')
        want = {'CUSTOM_NEW': 201, 'CUSTOM_FOO': 204}.get(name, 400)
        what = 'PUT class %s (create)' % name
        gate = z3.BoolVal(True)
    else:
        old, name = (('CUSTOM_BAR', 'CUSTOM_NEW'), ('CUSTOM_BAR', 'CUSTOM_FOO'),
                     ('VCPU', 'CUSTOM_NEW'), ('CUSTOM_NOPE', 'CUSTOM_NEW'),
                     ('CUSTOM_BAR', 'VCPU'))[symex.choose(5)]
        lo = app.sym_minor(ctx, 2, 6)
        m = to_z3(lo)
        r = app.call('PUT', '/resource_classes/' + old, {'name': name},
                     version='sym')
        want = {('CUSTOM_BAR', 'CUSTOM_NEW'): 200,
                ('CUSTOM_BAR', 'CUSTOM_FOO'): 409,
                ('VCPU', 'CUSTOM_NEW'): 400, ('CUSTOM_NOPE', 'CUSTOM_NEW'): 404,
                ('CUSTOM_BAR', 'VCPU'): 400}[(old, name)]
        what = 'PUT class %s -> %s (rename)' % (old, name)
        gate = z3.BoolVal(True)
    post = s.w.dump()
    if r.status in (404, 405) and kind == 0:
        obligation(ctx, 'write-status', gate,
                   '%s answered %d from 1.2 on' % (what, r.status))
    elif r.status != want:
        obligation(ctx, 'write-status', gate if kind == 0 else
                   z3.BoolVal(True),
                   '%s answered %d, documented %d' % (what, r.status, want),
                   sig='%s:%d' % (what, r.status))
    if r.status in (200, 201, 204):
        rows = _rows(post, 'resource_classes', name=name)
        obligation(ctx, 'write-effect',
                   zbool(Not(Or(*[x.present for x in rows]))),
                   '%s: class missing afterwards' % what)
        for x in rows:
            if x.vals['name'] == 'CUSTOM_NEW':
                obligation(ctx, 'write-effect',
                           z3.And(zbool(x.present),
                                  to_z3(x.vals['id']) < 10000),
                           'custom class with a standard identifier')
    else:
        obligation(ctx, 'write-effect',
                   zbool(rel_diff(s.pre, post, ('resource_classes',))),
                   '%s refused but classes changed' % what)
    return r


def w_reshape(ctx, s):
    """POST /reshaper: p1's inventory becomes {VCPU: total t} (DISK_GB is
    dropped), c1's allocations become {p1: VCPU a}; c2 is not named"""
    g1 = ctx.int('req_gen')
    t, a = ctx.int('new_total'), ctx.int('amt1')
    null1 = symex.fork(ctx.bool('req_cgen_null'))
    cg = None if null1 else ctx.int('req_cgen')
    body = {'inventories': {U(1): {
        'resource_provider_generation': g1,
        'inventories': {'VCPU': {'total': t}}}},
        'allocations': {CONS(1): {
            'allocations': {U(1): {'resources': {'VCPU': a}}},
            'project_id': 'proj', 'user_id': 'user',
            'consumer_generation': cg}}}
    r = app.call('POST', '/reshaper', body, version='1.36',
                 roles='admin,service')
    post = s.w.dump()
    from engine.scenario import inventory_bounds
    b = inventory_bounds()
    cons = s.cons[1]
    gen_ok = Not(cons['present']) if null1 else \
        And(cons['present'], to_z3(cg) == to_z3(cons['generation']))
    disk_in_use = s.alloc[(2, 1, 'DISK_GB')][0]
    others = s.used(1, 'VCPU', consumers=[2])
    accept = z3.And(
        to_z3(t) >= 1, to_z3(t) <= b['total'][1], to_z3(a) >= 1,
        to_z3(g1) == to_z3(s.w.prov[1]['generation']), zbool(gen_ok),
        z3.Not(zbool(disk_in_use)), to_z3(a) <= b['max_unit'][1],
        others + to_z3(a) <= to_z3(t))
    if r.status == 204:
        obligation(ctx, 'write-status', z3.Not(accept),
                   'reshape accepted although its documented meaning '
                   'requires rejection', sig='accepted')
        v = _inv_rows(post, s, 1, 'VCPU')
        obligation(ctx, 'write-effect',
                   zbool(Not(Or(*[x.present for x in v]))),
                   'VCPU inventory of p1 missing after the reshape')
        for f, want in (('total', t), ('reserved', 0), ('min_unit', 1),
                        ('step_size', 1)):
            n, val = _merged(v, f)
            obligation(ctx, 'write-effect', to_z3(val) != to_z3(want),
                       'stored %s differs' % f, sig=f)
        obligation(ctx, 'write-effect',
                   zbool(Or(*[x.present
                              for x in _inv_rows(post, s, 1, 'DISK_GB')])),
                   'DISK_GB inventory survives a reshape that omits it')
        _inv_unchanged(ctx, s, post, 2, 'VCPU')
        for (c, p, rc), (pres, used) in s.alloc.items():
            rows = [x for x in post['allocations']
                    if x.vals['consumer_id'] == CONS(c) and
                    x.vals['resource_provider_id'] == p and
                    x.vals['resource_class_id'] == s.w.rcs[rc]]
            now = Or(*[x.present for x in rows])
            if c != 1:
                obligation(ctx, 'write-effect',
                           zbool(Or(And(now, Not(pres)), And(pres, Not(now)))),
                           'an allocation of a consumer the reshape does not '
                           'name changed', sig='bystander')
            elif (p, rc) == (1, 'VCPU'):
                obligation(ctx, 'write-effect', zbool(Not(now)),
                           'requested allocation missing', sig='missing')
                n, val = _merged(rows, 'used')
                obligation(ctx, 'write-effect', to_z3(val) != to_z3(a),
                           'stored amount differs', sig='amount')
            else:
                obligation(ctx, 'write-effect', zbool(now),
                           'stale allocation of c1 survives', sig='stale')
    else:
        obligation(ctx, 'write-status', accept,
                   'reshape rejected with %d although its documented meaning '
                   'requires success' % r.status,
                   sig='rejected:%d' % r.status)
        obligation(ctx, 'write-effect',
                   zbool(rel_diff(s.pre, post, ('inventories', 'allocations',
                                                'resource_providers'))),
                   'rejected reshape changed inventories/allocations/'
                   'generations')
        if r.status not in (400, 409):
            runner.violation(ctx, 'write-status', 'status %d' % r.status)
    return r


WRITES = dict(put_allocations=w_put_allocations,
              put_allocations_attrs=w_put_allocations_attrs,
              put_inventories=w_put_inventories,
              delete_allocations=w_delete_allocations,
              put_traits=w_put_traits, put_aggregates=w_put_aggregates,
              put_inventory=w_put_inventory, post_inventory=w_post_inventory,
              delete_inventory=w_delete_inventory,
              delete_inventories=w_delete_inventories,
              delete_traits=w_delete_traits,
              post_allocations=w_post_allocations,
              put_allocations_legacy=w_put_allocations_legacy,
              delete_provider=w_delete_provider, put_provider=w_put_provider,
              post_provider=w_post_provider,
              delete_trait=w_delete_trait, put_trait=w_put_trait,
              delete_class=w_delete_class, put_post_class=w_put_post_class,
              reshape=w_reshape)


def fam_write(name):
    fn = WRITES[name]

    def path(ctx):
        app.setup()
        with S(ctx) as s:
            s.pre = s.w.dump()
            r = fn(ctx, s)
            if r.status >= 500:
                runner.violation(ctx, 'no-5xx', 'status %d' % r.status)
            return finish(ctx, str(r.status))
    return Family('write/' + name, path, bounds=dict(state='as read/*'))



# ---- (C) a read racing a write: "at any moment" --------------------------

def doc_neq(a, b):
    """z3 Bool / bool: two response documents differ (structure is concrete,
    leaves may be symbolic)"""
    if isinstance(a, dict) and isinstance(b, dict):
        if set(a) != set(b):
            return True
        parts = [doc_neq(a[k], b[k]) for k in a]
    elif isinstance(a, (list, tuple)) and isinstance(b, (list, tuple)):
        if len(a) != len(b):
            return True
        parts = [doc_neq(x, y) for x, y in zip(a, b)]
    else:
        if isinstance(a, symex.Sym) or isinstance(b, symex.Sym):
            return to_z3(a) != to_z3(b)
        return a != b
    if any(p is True for p in parts):
        return True
    parts = [p for p in parts if p is not False]
    return Or(*parts) if parts else False


def _race_reqs():
    from checks.conc import Req
    from engine.scenario import U, CONS
    P = U(1)
    reads = {
        'provider-usages': '/resource_providers/%s/usages' % P,
        'provider-inventories': '/resource_providers/%s/inventories' % P,
        'provider-allocations': '/resource_providers/%s/allocations' % P,
        'provider-traits': '/resource_providers/%s/traits' % P,
        'provider-aggregates': '/resource_providers/%s/aggregates' % P,
        'provider': '/resource_providers/%s' % P,
        'consumer-allocations': '/allocations/' + CONS(1),
        'project-usages': '/usages?project_id=proj',
    }

    def read(name):
        return Req('get_' + name, lambda ctx, w: app.call(
            'GET', reads[name], version='1.39'))
    writes = {
        'put_alloc': lambda: Req('put_alloc', lambda ctx, w: app.call(
            'PUT', '/allocations/' + CONS(2), {
                'allocations': {P: {'resources': {
                    'VCPU': ctx.int('amt', 1)}}},
                'project_id': 'proj', 'user_id': 'user',
                'consumer_generation': None, 'consumer_type': 'INSTANCE'},
            version='1.39')),
        'put_alloc_existing': lambda: Req(
            'put_alloc_existing', lambda ctx, w: app.call(
                'PUT', '/allocations/' + CONS(1), {
                    'allocations': {P: {'resources': {
                        'VCPU': ctx.int('amt', 1)}}},
                    'project_id': 'proj', 'user_id': 'user',
                    'consumer_generation': ctx.int('cgen', 0),
                    'consumer_type': 'INSTANCE'}, version='1.39')),
        'put_inventories': lambda: Req(
            'put_inventories', lambda ctx, w: app.call(
                'PUT', '/resource_providers/%s/inventories' % P, {
                    'resource_provider_generation': ctx.int('pgen', 0),
                    'inventories': {'VCPU': {
                        'total': ctx.int('new_total', 1)}}},
                version='1.39')),
        'put_traits': lambda: Req('put_traits', lambda ctx, w: app.call(
            'PUT', '/resource_providers/%s/traits' % P, {
                'resource_provider_generation': ctx.int('pgen', 0),
                'traits': ['CUSTOM_T1']}, version='1.39')),
        'put_aggregates': lambda: Req(
            'put_aggregates', lambda ctx, w: app.call(
                'PUT', '/resource_providers/%s/aggregates' % P, {
                    'resource_provider_generation': ctx.int('pgen', 0),
                    'aggregates': [AGG(1)]}, version='1.39')),
    }
    return read, writes, sorted(reads)


def _race_world(ctx):
    from engine.scenario import World
    w = World(ctx)
    w.rc('VCPU')
    w.trait('CUSTOM_T1')
    w.project('proj')
    w.user('user')
    ct = w.consumer_type('INSTANCE')
    w.provider(1, generation=ctx.int('pgen', 0))
    w.inventory(1, 'VCPU', present=True, total=ctx.int('total', 1),
                reserved=0, min_unit=1, max_unit=ctx.int('max', 1),
                step_size=1, allocation_ratio=1.0)
    w.allocation(1, 1, 'VCPU', present=True, used=ctx.int('used', 1))
    w.consumer(1, present=True, generation=ctx.int('cgen', 0), ctype=ct)
    return w


def fam_read_during_write(rname, wname):
    """One GET racing one write, every interleaving at transaction
    granularity: the GET's answer must be the answer it gets before the
    write or the one it gets after it - a report that equals the result of
    applying a prefix of the successful requests ("at any moment")."""
    from checks import conc, c08

    def path(ctx):
        app.setup()
        read, writes, _ = _race_reqs()
        reqs = [read(rname), writes[wname]()]
        pre, results, final, sched, _w = conc.run_concurrent(
            ctx, _race_world, reqs)
        got = results[0]
        before, _ = conc.run_serial(ctx, _race_world, reqs, (0, 1))
        after, _ = conc.run_serial(ctx, _race_world, reqs, (1, 0))
        alts = []
        for ref in (before[0], after[0]):
            if ref.status != got.status:
                continue
            d = doc_neq(got.json, ref.json)
            if d is False:
                alts = None
                break
            if d is not True:
                alts.append(Not(d))
        if alts is not None:
            obligation(ctx, 'read-is-a-moment',
                       zbool(Not(Or(*alts))) if alts else zbool(True),
                       'GET %s racing %s: the answer (%d) equals neither '
                       'the answer before the write nor the one after it'
                       % (rname, wname, got.status),
                       sig=c08.schedule_sig(reqs, sched.trace))
        return finish(ctx, '%d,%d' % (got.status, results[1].status))
    return Family('race/get_%s+%s' % (rname, wname), path, bounds=dict(
        schedules='every interleaving at transaction granularity',
        state='one provider with VCPU inventory, one consumer holding some; '
        'generations, totals and amounts symbolic'))


def fam_write_race(name, mk):
    """Two writes that carry no common guard (one of them has no generation
    to carry), every interleaving: what is stored afterwards equals applying
    the requests answered with success one after the other in some order, in
    which each of them succeeds - "the result of applying, in order,
    precisely the requests answered with success"."""
    from checks import conc

    def path(ctx):
        app.setup()
        reqs = mk()
        pre, results, final, sched, _w = conc.run_concurrent(
            ctx, _race_world, reqs)
        for i, r in enumerate(results):
            if r.status >= 500:
                runner.violation(ctx, 'no-5xx', '%s: %d' % (
                    reqs[i].name, r.status), sig=reqs[i].name)
        conc.check_serializable(ctx, _race_world, reqs, results, final,
                                clause='writes-apply-in-some-order')
        return finish(ctx, ','.join(str(r.status) for r in results))
    return Family('race/' + name, path, bounds=dict(
        schedules='every interleaving at transaction granularity',
        state='as race/get_*'))


def _write_races():
    from checks.conc import Req
    from engine.scenario import U, CONS
    _r, writes, _ = _race_reqs()

    def delete_alloc():
        return Req('delete_alloc', lambda ctx, w: app.call(
            'DELETE', '/allocations/' + CONS(1), version='1.39'))

    def delete_inventory():
        return Req('delete_inventory', lambda ctx, w: app.call(
            'DELETE', '/resource_providers/%s/inventories/VCPU' % U(1),
            version='1.39'))

    def delete_traits():
        return Req('delete_traits', lambda ctx, w: app.call(
            'DELETE', '/resource_providers/%s/traits' % U(1),
            version='1.39'))
    return [
        ('delete_alloc+put_alloc_existing',
         lambda: [delete_alloc(), writes['put_alloc_existing']()]),
        ('delete_alloc+put_alloc(other consumer)',
         lambda: [delete_alloc(), writes['put_alloc']()]),
        ('delete_alloc+delete_alloc',
         lambda: [delete_alloc(), delete_alloc()]),
        ('delete_inventory+put_alloc',
         lambda: [delete_inventory(), writes['put_alloc']()]),
        ('delete_traits+put_traits',
         lambda: [delete_traits(), writes['put_traits']()]),
    ]


def families(tier):
    fams = [fam_read(n) for n in READS] + [fam_write(n) for n in WRITES]
    fams += [fam_write_race(n, mk) for n, mk in _write_races()]
    _r, writes, reads = _race_reqs()
    pairs = [('provider-usages', 'put_alloc'),
             ('provider-inventories', 'put_inventories'),
             ('provider-allocations', 'put_alloc'),
             ('provider-traits', 'put_traits'),
             ('provider-aggregates', 'put_aggregates'),
             ('consumer-allocations', 'put_alloc_existing'),
             ('project-usages', 'put_alloc'),
             ('provider', 'put_inventories')]
    if tier == 'thorough':
        pairs = [(r, w) for r in reads for w in sorted(writes)]
    return fams + [fam_read_during_write(r, w) for r, w in pairs]


def tv_post(tier):
    """translation validation of the trusted SQL interpreter (DESIGN 3.3):
    random API conversations on SymDB (concrete mode) vs real SQLite"""
    import os
    from engine import tv
    base = int(os.environ.get('VERIF_SEED', '0') or 0) * 1000
    n = 3 if tier == 'quick' else 24
    r = tv.validate(range(base, base + n))
    r['what'] = ('symbolic-DB interpreter in concrete mode vs SQLite under '
                 'the same real application: status, JSON body, headers of '
                 'every response and the canonical final state must agree')
    return r


if __name__ == '__main__':
    sys.exit(runner.run_check(
        'C11', families, functions=FUNCTIONS, post=tv_post,
        assumptions=['routes claimed: the read routes of READS and the write '
                     'routes of WRITES (PUT/POST/DELETE allocations incl. '
                     'the 1.0-1.27 formats, PUT/POST/DELETE inventories, '
                     'PUT/DELETE traits, PUT aggregates, POST/PUT/DELETE '
                     'resource_providers, PUT/DELETE traits, POST/PUT/DELETE '
                     'resource_classes, POST reshaper (one shape))',
                     'pre-state valid: allocation => inventory, consumer <=> '
                     'allocations'],
        quick_budget=420, thorough_budget=2400))
