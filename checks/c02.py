"""C02 — every allocation candidate can be claimed exactly as returned
(DESIGN 5/C02)."""
import sys
import z3

from engine import app, runner, symex
from engine.runner import Family, obligation, finish
from engine.scenario import U, CONS, SHARING
from engine.symdb import And, Or, Not, zbool
from engine.symex import to_z3
from checks import cands, c03
from checks.cands import Group, Query, T1, T2

FUNCTIONS = c03.FUNCTIONS + [
    'placement.handlers.allocation_candidate._transform_*',
    'placement.handlers.allocation._set_allocations_for_consumer',
    'placement.objects.allocation.replace_all/_set_allocations/'
    '_check_capacity_exceeded',
]


def vt(version):
    return tuple(int(x) for x in version.split('.'))


def check_structure(ctx, cw, query, amounts, entries):
    """clause 1: placed exactly what was asked, on existing providers"""
    topo = cw.topo
    for e in entries:
        for (p, rc) in e['alloc']:
            if p not in topo.parents:
                runner.violation(ctx, 'names-existing-providers',
                                 'candidate names unknown provider %s' % p)
        # per class: placed amounts sum to the total requested over groups
        classes = {rc for (s, rc) in amounts}
        for rc in classes:
            want = cands.sum_terms([amounts[k] for k in amounts
                                    if k[1] == rc])
            got_terms = [e['alloc'][k] for k in e['alloc'] if k[1] == rc]
            got = cands.sum_terms(got_terms) if got_terms else z3.IntVal(0)
            obligation(ctx, 'per-class-total', got != want,
                       'class %s: placed total differs from requested total'
                       % rc, sig='total')
        extra = {rc for (_, rc) in e['alloc']} - classes
        if extra:
            runner.violation(ctx, 'per-class-total',
                             'candidate places unrequested classes %s' % extra)
        if e['maps'] is None:
            continue
        # each suffixed group in full on the one provider its mapping names;
        # amounts for the same (provider, class) added up
        expect = {}
        ok_shape = True
        for s, g in query.groups.items():
            ps = e['maps'].get(s)
            if not ps:
                runner.violation(ctx, 'mapping-per-group',
                                 'no mapping for group %r' % s)
                ok_shape = False
                continue
            if s != '':
                if len(ps) != 1:
                    runner.violation(ctx, 'mapping-per-group',
                                     'suffixed group %r mapped to %d '
                                     'providers' % (s, len(ps)))
                    ok_shape = False
                    continue
                p = next(iter(ps))
                for rc in g.res:
                    expect.setdefault((p, rc), []).append(amounts[(s, rc)])
        if not ok_shape:
            continue
        g0 = query.groups.get('')
        # residual after the suffixed groups must be the unsuffixed group's
        # classes, each in full on exactly one provider of its mapping
        if g0 is None:
            for k in set(e['alloc']) | set(expect):
                got = to_z3(e['alloc'].get(k, 0))
                want = cands.sum_terms(expect[k]) if k in expect else \
                    z3.IntVal(0)
                obligation(ctx, 'group-placed-in-full', got != want,
                           'amount on %s is not the sum of the groups mapped '
                           'there' % (k,), sig='amount')
        else:
            ps0 = e['maps'].get('', frozenset())
            for rc in g0.res:
                alts = []
                for p in ps0:
                    # hypothesis: class rc of the unsuffixed group sits on p
                    conds = []
                    for k in set(e['alloc']) | set(expect):
                        if k[1] != rc:
                            continue
                        terms = list(expect.get(k, []))
                        if k[0] == p:
                            terms.append(amounts[('', rc)])
                        want = cands.sum_terms(terms) if terms else \
                            z3.IntVal(0)
                        conds.append(to_z3(e['alloc'].get(k, 0)) == want)
                    if (p, rc) not in e['alloc']:
                        continue
                    alts.append(z3.And(*conds) if conds else z3.BoolVal(True))
                obligation(ctx, 'group-placed-in-full',
                           z3.Not(z3.Or(*alts)) if alts else z3.BoolVal(True),
                           'class %s of the unsuffixed group is not placed in '
                           'full on one provider of its mapping' % rc,
                           sig='amount')
            for k in set(e['alloc']) | set(expect):
                if k[1] in g0.res:
                    continue
                got = to_z3(e['alloc'].get(k, 0))
                want = cands.sum_terms(expect[k]) if k in expect else \
                    z3.IntVal(0)
                obligation(ctx, 'group-placed-in-full', got != want,
                           'amount on %s is not the sum of the groups mapped '
                           'there' % (k,), sig='amount')


def check_summaries(ctx, cw, query, entries, sums):
    v = vt(query.version)
    topo = cw.topo
    named = set()
    for e in entries:
        named |= {p for (p, _) in e['alloc']}
        for ps in (e['maps'] or {}).values():
            named |= set(ps)
    for p in sorted(named):
        if p not in sums:
            runner.violation(ctx, 'summary-present',
                             'provider %d named by a candidate has no '
                             'provider_summaries entry' % p)
            continue
        s = sums[p]
        for (q, rc), inv in cw.inv.items():
            if q != p:
                continue
            res = s['resources'].get(rc)
            if res is None:
                requested = any(rc in g.res for g in query.groups.values())
                if v >= (1, 27) or requested:
                    obligation(ctx, 'summary-resources', zbool(inv['present']),
                               'summary of provider %d lacks class %s' %
                               (p, rc))
                continue
            obligation(ctx, 'summary-resources',
                       zbool(Not(inv['present'])),
                       'summary of provider %d lists %s without inventory'
                       % (p, rc))
            obligation(ctx, 'summary-capacity',
                       to_z3(res['capacity']) != cw.cap_int(p, rc),
                       'capacity of %s on provider %d differs from '
                       'trunc((total-reserved)*ratio)' % (rc, p))
            obligation(ctx, 'summary-used',
                       to_z3(res['used']) != to_z3(cw.used.get((p, rc), 0)),
                       'used of %s on provider %d differs from the sum of '
                       'allocations' % (rc, p))
        if v >= (1, 17):
            got = set(s.get('traits', []))
            for (q, t), bit in cw.tr.items():
                if q != p:
                    continue
                obligation(ctx, 'summary-traits',
                           zbool(bit) != z3.BoolVal(t in got),
                           'trait %s of provider %d misreported' % (t, p))
            unknown = got - {t for (q, t) in cw.tr if q == p}
            if unknown:
                runner.violation(ctx, 'summary-traits',
                                 'summary lists traits %s the provider '
                                 'cannot have' % unknown)
        if v >= (1, 29):
            par = topo.parents[p]
            if s.get('parent_provider_uuid') != (U(par) if par else None) or \
                    s.get('root_provider_uuid') != U(topo.root(p)):
                runner.violation(ctx, 'summary-tree-position',
                                 'parent/root of provider %d misreported' % p)


def claim(ctx, query, entry, n):
    """send the candidate unchanged as the allocations of a new consumer"""
    v = vt(query.version)
    body = dict(entry['raw'])
    if v >= (1, 8):
        body['project_id'] = 'proj'
        body['user_id'] = 'user'
    if v >= (1, 28):
        body['consumer_generation'] = None
    if v >= (1, 38):
        body['consumer_type'] = 'INSTANCE'
    r = app.call('PUT', '/allocations/' + CONS(100 + n), body,
                 version=query.version)
    if r.status != 204:
        runner.violation(ctx, 'claim-accepted',
                         'candidate %s rejected with %d: %s' % (
                             sorted(entry['alloc']), r.status,
                             (r.error_detail or '')[:200]),
                         sig=str(r.status))
        return
    d = app.call('DELETE', '/allocations/' + CONS(100 + n),
                 version=query.version)
    if d.status != 204:
        runner.violation(ctx, 'claim-accepted', 'cleanup failed %d' % d.status)


def make_family(tname, qname, query, usage=False):
    topo = c03.TOPOS[tname]

    def path(ctx):
        app.setup()
        with cands.CW(ctx, topo, usage=usage) as cw:
            amounts = cands.amount_terms(ctx, query)
            r = app.call('GET', cands.querystring(query, amounts),
                         version=query.version)
            if r.status != 200:
                runner.violation(ctx, 'valid-query-answered-200',
                                 'status %d' % r.status, sig=str(r.status))
                return finish(ctx, str(r.status))
            entries, sums = cands.parse_candidates(r.json, query.version)
            check_structure(ctx, cw, query, amounts, entries)
            check_summaries(ctx, cw, query, entries, sums)
            for n, e in enumerate(entries):
                claim(ctx, query, e, n)
            return finish(ctx, '200:%d' % len(entries))
    return Family('%s/%s%s@%s' % (tname, qname, '+usage' if usage else '',
                                  query.version), path,
                  bounds=dict(topology=topo.parents, query=qname,
                              version=query.version, usage=usage))


def families(tier):
    qs = c03.QUERIES(tier)
    G = Group
    qs['u-vcpu-disk@1.36'] = Query({'': G({'VCPU': None, 'DISK_GB': None})},
                                   version='1.36')
    qs['u-vcpu-disk@1.12'] = Query({'': G({'VCPU': None, 'DISK_GB': None})},
                                   version='1.12')
    qs['u-vcpu-disk@1.10'] = Query({'': G({'VCPU': None, 'DISK_GB': None})},
                                   version='1.10')
    qs['u-vcpu-disk@1.17'] = Query({'': G({'VCPU': None, 'DISK_GB': None})},
                                   version='1.17')
    qs['u+1+2'] = Query({'': G({'VCPU': None}), '_1': G({'VCPU': None}),
                         '_2': G({'VCPU': 1, 'DISK_GB': 1})}, policy='none')
    # several groups naming different classes in the two versions that have
    # granular groups but still restrict the summaries to requested classes
    # (suffixes are digits only below 1.33)
    qs['1+2-diffrc@1.25'] = Query({'1': G({'VCPU': None}),
                                   '2': G({'DISK_GB': 1})}, policy='none',
                                  version='1.25')
    qs['u+1-diffrc@1.26'] = Query({'': G({'DISK_GB': None}),
                                   '1': G({'VCPU': 1})}, version='1.26')
    qs['1+u-diffrc@1.26'] = Query({'1': G({'VCPU': 1}),
                                   '': G({'DISK_GB': None})}, version='1.26')
    quick = [('flat', 'u-vcpu-disk', True), ('tree', 'u+1-nopolicy', False),
             ('two', 'u+1-none', True), ('tree-t', 'u-req', False),
             ('flat', 'u-vcpu-disk@1.10', False),
             ('two-i', '1+2-isolate', False),
             ('nest-s', 'u-vcpu-disk', False),
             ('flat-s', 'u+1-none', False),
             ('tree', 'u+1+2-nonadj', False),
             ('flat', 'u+D-root-notsharing', False),
             # three classes whose capable trees may be disjoint
             ('three', 'u-3rc', True), ('flat', 'u-disk', False),
             ('flat', '1+2-diffrc@1.25', False),
             ('flat', 'u+1-diffrc@1.26', False),
             ('flat', '1+u-diffrc@1.26', False)]
    extra = [('two', '1+2+3-nonadj', False), ('two', 'u+1+2-nonadj', True),
             ('flat-s', 'u+1+2-nonadj', False),
             ('flat', 'u-vcpu-disk@1.36', True),
             ('flat', 'u-vcpu-disk@1.12', True),
             ('flat', 'u-vcpu-disk@1.17', True),
             ('tree', 'u-1.28', True), ('tree', 'u+1-none', True),
             ('two', 'u+1+2', False), ('two', '1+2-isolate', True),
             ('tree', 'u-vcpu-disk', True), ('tree', '1+2-subtree', False),
             ('flat-t', 'u-forb', False), ('flat-a', 'u-member', False),
             ('two-t', 'u-rootreq', False), ('two', 'u+1-nopolicy', True),
             ('tree-a', 'u-vcpu-disk', True)]
    triples = quick if tier == 'quick' else quick + extra
    return [make_family(t, q, qs[q], u) for t, q, u in triples]


if __name__ == '__main__':
    sys.exit(runner.run_check(
        'C02', families, functions=FUNCTIONS,
        assumptions=['as C03; the claim is the real PUT /allocations run in '
                     'the same path on the same symbolic state, undone by the '
                     'real DELETE /allocations',
                     'provider_summaries oracle: capacity = trunc(fmul(total-'
                     'reserved, ratio)), used = sum of allocation rows'],
        quick_budget=420, thorough_budget=2400))
