"""C20 — limit and randomisation only select from the full candidate set
(DESIGN 5/C20)."""
import copy
import sys
import z3

from engine import app, runner, symex
from engine.runner import Family, obligation, finish
from engine.symdb import And, Or, Not, zbool
from engine.symex import to_z3
from checks import cands, c03
from checks.cands import Group, Query

from placement.objects import research_context as res_ctx

FUNCTIONS = c03.FUNCTIONS + [
    'placement.objects.research_context.RequestWideSearchContext.'
    'limit_results']


class ChoiceRandom:
    """Stand-in for the `random` module inside research_context: an arbitrary
    selection honouring the documented contract (sample: k distinct elements
    in some order; shuffle: some permutation), chosen by the explorer."""

    @staticmethod
    def _canon(pool):
        """candidates in an order that does not depend on the order the
        database returned rows in, so that a recorded selection picks the
        same candidates when replayed on the other back end"""
        def key(aro):
            return (sorted((str(s), sorted(u)) for s, u in
                           aro.mappings.items()),
                    sorted((rr.resource_provider.uuid, rr.resource_class)
                           for rr in aro.resource_requests))
        try:
            return sorted(pool, key=key)
        except Exception:
            return pool

    def sample(self, population, k):
        pool = self._canon(list(population))
        out = []
        for _ in range(k):
            i = symex.choose(len(pool))
            out.append(pool.pop(i))
        return out

    def shuffle(self, x):
        pool = list(x)
        if len(pool) > 4:
            # n! orders: beyond 4 elements three representatives (as is,
            # reversed, rotated by one).  Every clause about a shuffled
            # list compares it as a set, so its order is immaterial; the
            # selections of random.sample stay exhaustive.
            k = symex.choose(3)
            x[:] = (pool, pool[::-1], pool[1:] + pool[:1])[k]
            return
        out = []
        while pool:
            out.append(pool.pop(symex.choose(len(pool))))
        x[:] = out

    # the rest of the module's selection interface, each with its documented
    # contract and the explorer choosing the outcome
    def choice(self, seq):
        seq = list(seq)
        return seq[symex.choose(len(seq))]

    def choices(self, population, weights=None, *, cum_weights=None, k=1):
        pool = list(population)          # with replacement
        return [pool[symex.choose(len(pool))] for _ in range(k)]

    def randrange(self, start, stop=None, step=1):
        if stop is None:
            start, stop = 0, start
        vals = list(range(start, stop, step))
        return vals[symex.choose(len(vals))]

    def randint(self, a, b):
        return self.randrange(a, b + 1)

    def random(self):
        return (0.0, 0.5, 0.999)[symex.choose(3)]

    def __getattr__(self, name):
        raise NotImplementedError(
            'random.%s is not modelled by the C20 stand-in' % name)


def entry_eq(a, b):
    """z3 Bool/bool: two returned entries are the same candidate"""
    if set(a['alloc']) != set(b['alloc']) or a['maps'] != b['maps']:
        return False
    return And(*[to_z3(a['alloc'][k]) == to_z3(b['alloc'][k])
                 for k in a['alloc']])


def make_family(tname, qname, query, randomize, usage=False, max_limit=None):
    """max_limit: only limits up to this value (randomised families over
    many candidates: the selections of limit N number M!/(M-N)!)"""
    topo = c03.TOPOS[tname]

    def path(ctx):
        app.setup()
        app.set_conf('placement', randomize_allocation_candidates=randomize)
        real_random = res_ctx.random
        res_ctx.random = ChoiceRandom()
        try:
            with cands.CW(ctx, topo, usage=usage) as cw:
                amounts = cands.amount_terms(ctx, query)
                r = app.call('GET', cands.querystring(query, amounts),
                             version=query.version)
                if r.status != 200:
                    runner.violation(ctx, 'valid-query-answered-200',
                                     'status %d' % r.status)
                    return finish(ctx, str(r.status))
                full, fsums = cands.parse_candidates(r.json, query.version)
                M = len(full)
                if not randomize:
                    r2 = app.call('GET', cands.querystring(query, amounts),
                                  version=query.version)
                    again, _ = cands.parse_candidates(r2.json, query.version)
                    same = len(again) == M and all(
                        entry_eq(a, b) is not False
                        for a, b in zip(full, again))
                    if not same:
                        runner.violation(ctx, 'deterministic-order',
                                         'identical request returned a '
                                         'different ordered list')
                    else:
                        obligation(ctx, 'deterministic-order', zbool(Not(And(
                            *[entry_eq(a, b) for a, b in zip(full, again)]))),
                            'identical request returned a different ordered '
                            'list')
                # below 1.34 the body has no mappings, so candidates that
                # differ only in which suffixed group took which provider
                # are rendered alike: distinct candidates, identical entries
                # (same relaxation as C03's `distinct`); every other clause,
                # the count in particular, still applies
                rendered_alike = (
                    tuple(int(x) for x in query.version.split('.')) < (1, 34)
                    and len([g for g in query.groups if g]) >= 2)
                limits = list(range(1, M + 2))
                if max_limit is not None:
                    limits = [n for n in limits if n <= max_limit]
                if randomize:
                    # one limit per path (an explorer decision): the
                    # selections of different limits add up instead of
                    # multiplying
                    limits = [limits[symex.choose(len(limits))]]
                for N in limits:
                    q = copy.copy(query)
                    q.limit = N
                    rl = app.call('GET', cands.querystring(q, amounts),
                                  version=query.version)
                    if rl.status != 200:
                        runner.violation(ctx, 'valid-query-answered-200',
                                         'limit=%d status %d' % (N, rl.status))
                        continue
                    lim, lsums = cands.parse_candidates(rl.json,
                                                        query.version)
                    if len(lim) != min(N, M):
                        runner.violation(
                            ctx, 'limit-count', 'limit=%d of %d returned %d'
                            % (N, M, len(lim)), sig='count')
                    for i, e in enumerate(lim):
                        obligation(ctx, 'limited-subset-of-full', zbool(Not(Or(
                            *[entry_eq(e, f) for f in full]))),
                            'limit=%d returned a candidate that is not among '
                            'the unlimited results' % N, sig='subset')
                        for e2 in lim[:i]:
                            if rendered_alike:
                                break
                            obligation(ctx, 'limited-distinct',
                                       zbool(entry_eq(e, e2)),
                                       'limit=%d returned the same candidate '
                                       'twice' % N, sig='dup')
                        for (p, rc) in e['alloc']:
                            if p not in lsums:
                                runner.violation(
                                    ctx, 'summaries-cover-limited',
                                    'limit=%d: provider %d named but not '
                                    'summarised' % (N, p), sig='summary')
                    if not randomize:
                        for a, b in zip(lim, full):
                            obligation(ctx, 'limited-is-prefix',
                                       zbool(Not(entry_eq(a, b))),
                                       'limit=%d (no randomisation) is not a '
                                       'prefix of the unlimited list' % N)
                return finish(ctx, 'M=%d' % M)
        finally:
            res_ctx.random = real_random
            app.set_conf('placement', randomize_allocation_candidates=False)
    return Family('%s/%s/%s' % (tname, qname, 'random' if randomize else
                                'ordered'), path,
                  bounds=dict(topology=topo.parents, query=qname,
                              randomize=randomize,
                              limits='1..M+1' if max_limit is None else
                              '1..%d' % max_limit))


def families(tier):
    qs = c03.QUERIES(tier)
    G = Group
    qs['u-vcpu-disk@1.28'] = Query({'': G({'VCPU': None, 'DISK_GB': None})},
                                   version='1.28')
    qs['u-vcpu-disk@1.16'] = Query({'': G({'VCPU': None, 'DISK_GB': 1})},
                                   version='1.16')
    quick = [('flat', 'u-vcpu-disk', False), ('flat', 'u-vcpu-disk', True),
             ('tree', 'u-vcpu-disk@1.28', False),
             # with randomisation every selection is explored, so the
             # result does not depend on the (hash-dependent) list order
             ('tree', 'u-vcpu-disk@1.28', True),
             ('two', 'u-vcpu-disk@1.16', False),
             ('two-i', '1+2-isolate', False), ('tree', 'u+1-none', False),
             ('two', 'u-vcpu-disk', True),
             ('flat', 'u-disk', False), ('flat', '1-disk', False),
             ('two-i', '1+2-isolate@1.33', False),
             ('three-vf', '1+2-isolate@1.33', False),
             # every selection of up to two of the (up to six) candidates:
             # independent of the hash-dependent order of the full list
             ('three-vf', '1+2-isolate@1.33', True, 2)]
    extra = [('tree', 'u-vcpu-disk', False), ('tree', 'u-vcpu-disk', True),
             ('tree', 'u-vcpu-disk@1.28', True),
             ('two', 'u-vcpu-disk@1.28', False),
             ('nest-s', 'u-vcpu-disk@1.28', False),
             ('two', 'u+1-none', False), ('flat-s', 'u+1-none', False),
             ('tree', 'u+1-none', True), ('two-i', '1+2-isolate', True),
             ('flat-a', 'u-member', False), ('tree-t', 'u-req', True),
             ('two-i', '1+2-isolate@1.33', True),
             ('tree', '1+2-isolate@1.33', False),
             ('three-vf', '1+2-isolate@1.33', True, 3),
             ('three-vf', '1+2-isolate', False)]
    tr = quick if tier == 'quick' else quick + extra
    return [make_family(x[0], x[1], qs[x[1]], x[2], False, *x[3:])
            for x in tr]


if __name__ == '__main__':
    sys.exit(runner.run_check(
        'C20', families, functions=FUNCTIONS,
        assumptions=['random.sample/shuffle inside research_context replaced '
                     'by an arbitrary selection honouring their contract, '
                     'explored exhaustively as choose() decisions — '
                     'seeds are thereby universally quantified rather than '
                     'sampled', 'state/query scope as C03'],
        quick_budget=420, thorough_budget=2400))
