"""C18 — a crash at any point leaves a state satisfying the core invariants
(DESIGN 5/C18).  Crash points are explorer decisions; the data is symbolic.
"""
import sys
import z3

from engine import app, runner, symex, inject
from engine.runner import Family, obligation, finish
from engine.scenario import rel_diff
from engine.symdb import And, Or, Not, zbool
from engine.symex import Crash
from checks import corpus, asserts

ATOMIC_TABLES = ('resource_providers', 'inventories', 'allocations',
                 'resource_provider_traits', 'resource_provider_aggregates',
                 'resource_classes', 'traits')


def forest_ok(ctx, state):
    rows = {}
    for r in state['resource_providers']:
        if r.present is True:
            rows[r.vals['id']] = r.vals
        elif r.present is not False:
            return      # symbolic presence: covered by C08's formulas
    for i, v in rows.items():
        seen = set()
        x = i
        top = i
        while x is not None:
            if x in seen or x not in rows:
                runner.violation(ctx, 'forest', 'cycle or missing parent at '
                                 'provider %s' % v['uuid'])
                return
            seen.add(x)
            top = x
            x = rows[x]['parent_provider_id']
        if v['root_provider_id'] != top:
            runner.violation(ctx, 'forest', 'wrong root pointer for %s'
                             % v['uuid'])


def make_family(shape):
    def path(ctx):
        app.setup()
        # fault-free reference run
        with shape.world(ctx, **shape.wkw) as w0:
            pre = w0.dump()
            r0 = shape.request(ctx, w0, shape)
            post = w0.dump()
        # run with a crash point chosen by the explorer
        with shape.world(ctx, **shape.wkw) as w:
            hook, un = inject.install_crash(w)
            crashed = False
            try:
                shape.request(ctx, w, shape)
            except Crash:
                crashed = True
            finally:
                un()
            surv = w.dump()
        ctx.data['crash_points_statements'] = hook.statements
        if not crashed:
            return finish(ctx, 'completed:%d' % r0.status,
                          info=dict(commits=hook.commits,
                                    statements=hook.statements))
        # consumers count only while they hold allocations in the surviving
        # state (a consumer without allocations is a tolerated leftover)
        holds = {}
        for a in surv['allocations']:
            holds.setdefault(a.vals['consumer_id'], []).append(a.present)

        def filt(state):
            from engine.symdb import Row
            out = dict(state)
            out['consumers'] = [
                Row(And(r.present, Or(*holds.get(r.vals['uuid'], []))),
                    r.vals) for r in state['consumers']]
            return out
        tables = ATOMIC_TABLES + ('consumers',)
        same_pre = Not(rel_diff(filt(surv), filt(pre), tables))
        same_post = Not(rel_diff(filt(surv), filt(post), tables))
        obligation(ctx, 'atomic-units-whole-or-absent',
                   zbool(Not(Or(same_pre, same_post))),
                   'after a crash before commit #%d the surviving '
                   'providers/inventories/allocations/associations equal '
                   'neither the state before the request nor the state '
                   'after it' % hook.crashed_at,
                   sig='commit%d' % hook.crashed_at)
        asserts.no_dangling(ctx, shape, w, pre, surv, r0)
        forest_ok(ctx, surv)
        return finish(ctx, 'crash@commit%d' % hook.crashed_at,
                      info=dict(statements=hook.statements))
    return Family('crash/' + shape.name, path,
                  bounds=dict(kind=shape.kind, version=shape.version,
                              crash_points='before every writer commit '
                              '(statement-level points inside a transaction '
                              'collapse onto it) and after the last'))


def families(tier):
    shapes = corpus.shapes(tier)
    if tier == 'quick':
        keep = {'alloc-put', 'alloc-put-2p', 'alloc-post-2c', 'alloc-delete',
                'alloc-post-clear+new', 'reshape-move', 'inv-put-all-2',
                'inv-delete-all', 'traits-put', 'aggs-put-new',
                'alloc-put-1.38',
                # writes that also change who owns / what type the consumer is
                'alloc-put-1.38-newtype', 'alloc-put-newproj',
                'alloc-post-2c-1.38-newattrs', 'reshape-move-1.38-newattrs',
                'class-put-new', 'trait-put-new'}
        shapes = [s for s in shapes if s.name in keep]
    return [make_family(s) for s in shapes] + provider_families()


def chain_world(ctx):
    """p1 <- p2 <- p3 (a chain) and a separate root p4"""
    from engine.scenario import World
    w = World(ctx)
    w.rc('VCPU')
    w.project('proj')
    w.user('user')
    w.provider(1)
    w.provider(2, parent=1)
    w.provider(3, parent=2)
    w.provider(4)
    w.inventory(3, 'VCPU')
    return w


def provider_families():
    S = corpus.Shape
    shapes = [
        S('prov-post-child', corpus.post_provider(5, parent=1), kind='prov'),
        S('prov-post-root', corpus.post_provider(5, parent=None),
          kind='prov'),
        S('prov-post-root-1.0', corpus.post_provider(5, parent=None,
                                                     version='1.0'),
          kind='prov', version='1.0'),
        S('prov-move', corpus.put_provider(2, parent=None), kind='prov',
          wkw=dict(with_p3=True)),
        S('prov-move-to-p3', corpus.put_provider(2, parent=3), kind='prov',
          wkw=dict(with_p3=True)),
        S('prov-delete', corpus.delete_provider(2), kind='prov'),
        # whole subtrees: the moved provider has a child whose root pointer
        # has to follow in the same atomic unit
        S('prov-move-subtree', corpus.put_provider(1, parent=3), kind='prov',
          wkw=dict(with_p3=True)),
        S('prov-move-subtree-rename', corpus.put_provider(1, parent=3,
                                                          name='p1x'),
          kind='prov', wkw=dict(with_p3=True)),
        S('prov-unparent-subtree', corpus.put_provider(2, parent=None),
          kind='prov', world=chain_world),
        S('prov-reparent-subtree', corpus.put_provider(2, parent=4),
          kind='prov', world=chain_world),
    ]
    return [make_family(s) for s in shapes]


if __name__ == '__main__':
    sys.exit(runner.run_check(
        'C18', families, level='fault_enumeration',
        functions=corpus.ALLOC_FUNCS + corpus.INV_FUNCS + [
            'oslo_db.sqlalchemy.enginefacade (real transaction scoping; '
            'crash = BaseException raised before Session.commit)'],
        assumptions=['the database discards uncommitted work (crash inside '
                     'a transaction == crash before its commit)',
                     'pre-state: standard world of checks/corpus.py']))
