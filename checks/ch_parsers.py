"""CrossHair targets: the pure query-string parsers of placement, called on
a symbolic str.  Contract: they return or raise webob HTTPBadRequest, nothing
else.  (PEP316 docstrings are read raw.)"""
import sys
import os
sys.path.insert(0, os.environ.get('PLACEMENT_SRC', '/repo'))
from webob.exc import HTTPBadRequest  # noqa: E402,F401
from placement import util  # noqa: E402
from placement import lib  # noqa: E402
from placement.handlers import trait as trait_handler  # noqa: E402


def resources(qs: str) -> bool:
    """
    pre: len(qs) <= 6
    post: _
    """
    try:
        util.normalize_resources_qs_param(qs)
    except HTTPBadRequest:
        pass
    return True


def traits(val: str, allow_forbidden: bool, allow_any: bool) -> bool:
    """
    pre: len(val) <= 6
    post: _
    """
    try:
        util.normalize_traits_qs_param(val, allow_forbidden, allow_any)
    except HTTPBadRequest:
        pass
    return True


def traits_legacy(val: str, allow_forbidden: bool) -> bool:
    """
    pre: len(val) <= 5
    post: _
    """
    try:
        util.normalize_traits_qs_param_to_legacy_value(val, allow_forbidden)
    except HTTPBadRequest:
        pass
    return True


def member_of(val: str) -> bool:
    """
    pre: len(val) <= 6
    post: _
    """
    try:
        util.normalize_member_of_qs_param(val)
    except HTTPBadRequest:
        pass
    return True


def in_tree(val: str) -> bool:
    """
    pre: len(val) <= 6
    post: _
    """
    try:
        util.normalize_in_tree_qs_params(val)
    except HTTPBadRequest:
        pass
    return True


def trait_name_filter(qs: str) -> bool:
    """
    pre: len(qs) <= 8
    post: _
    """
    try:
        trait_handler._normalize_traits_qs_param(qs)
    except HTTPBadRequest:
        pass
    return True


def fix_one_forbidden(a: str, b: str) -> bool:
    """
    pre: len(a) <= 4 and len(b) <= 4
    post: _
    """
    try:
        lib._fix_one_forbidden({a, b})
    except HTTPBadRequest:
        pass
    return True
