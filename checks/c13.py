"""C13 — provider listing filters select exactly the matching providers
(DESIGN 5/C13)."""
import sys
import z3

from engine import app, runner, symex
from engine.runner import Family, obligation, finish
from engine.scenario import U, AGG
from engine.symdb import And, Or, Not, zbool
from checks import cands
from checks.cands import Topo, T1, T2

FUNCTIONS = [
    'placement.handlers.resource_provider.list_resource_providers',
    'placement.util.normalize_member_of_qs_params/normalize_traits_qs_params/'
    'normalize_resources_qs_param/validate_query_params',
    'placement.objects.resource_provider.get_all_by_filters/'
    '_get_all_by_filters_from_db',
    'placement.objects.research_context.provider_ids_matching_aggregates/'
    'provider_ids_matching_required_traits/get_provider_ids_having_any_trait/'
    'get_providers_with_resource/provider_ids_from_uuid',
]

# tree 1 -> 2, flat 3, flat 4
TOPO = Topo('list', {1: None, 2: 1, 3: None, 4: None},
            invs=[(1, 'VCPU'), (2, 'VCPU'), (3, 'VCPU'), (3, 'DISK_GB')],
            sure=[(4, 'VCPU')],
            traits=[(1, T1), (2, T1), (3, T1), (2, T2), (3, T2)],
            aggs=[(1, 1), (2, 1), (3, 1), (2, 2), (3, 2)])
TOPO_I = TOPO.but(traits=[], aggs=[])
TOPO_T = TOPO.but(invs=[], sure=[(1, 'VCPU'), (3, 'VCPU')], aggs=[])
TOPO_A = TOPO.but(invs=[], sure=[(1, 'VCPU'), (3, 'VCPU')], traits=[])
TOPO_M = TOPO.but(invs=[(2, 'VCPU'), (3, 'VCPU')], sure=[(1, 'VCPU')],
                  traits=[(2, T1), (3, T1)], aggs=[(2, 1), (3, 1), (1, 1)])

# for generated combinations: fewer optional bits (8), every filter still has
# providers on both sides
TOPO_C = TOPO.but(invs=[(2, 'VCPU'), (3, 'VCPU')],
                  sure=[(1, 'VCPU'), (4, 'VCPU')],
                  traits=[(2, T1), (3, T1), (3, T2)], sure_traits=[(1, T1)],
                  aggs=[(2, 1), (3, 1), (3, 2)], sure_aggs=[(1, 1)])

UNKNOWN_UUID = 'eeeeeeee-1111-1111-1111-111111111111'


class F:
    """one filter combination"""

    def __init__(self, name=None, uuid=None, in_tree=None, mem=(), fmem=(),
                 req=(), forb=(), res=None, raw_extra='', expect=200,
                 version='1.39', dup=None, or_empty=False):
        # or_empty: the combination also falls under a "yields an empty
        # list" clause of the statement, so 200 with no providers is accepted
        # besides `expect`
        self.or_empty = or_empty
        # dup = a class of res named a second time in the same `resources`
        # value, with its own symbolic amount
        self.dup = dup
        self.name, self.uuid, self.in_tree = name, uuid, in_tree
        self.mem = [list(m) for m in mem]      # each: any-of list of agg n
        self.fmem = list(fmem)                 # forbidden agg numbers
        self.req = [list(k) for k in req]
        self.forb = list(forb)
        self.res = res or {}                   # rc -> None (symbolic) | int
        self.raw_extra = raw_extra
        self.expect = expect
        self.version = version


def qs_of(f, amounts):
    q = []
    if f.name is not None:
        q.append('name=' + f.name)
    if f.uuid is not None:
        q.append('uuid=' + f.uuid)
    if f.in_tree is not None:
        q.append('in_tree=' + f.in_tree)
    for M in f.mem:
        q.append('member_of=' + (AGG(M[0]) if len(M) == 1 else
                                 'in:' + ','.join(AGG(a) for a in M)))
    if f.fmem:
        q.append('member_of=' + ('!' + AGG(f.fmem[0]) if len(f.fmem) == 1
                                 else '!in:' + ','.join(AGG(a)
                                                        for a in f.fmem)))
    for K in f.req:
        q.append('required=' + (K[0] if len(K) == 1 else
                                'in:' + ','.join(K)))
    if f.forb:
        q.append('required=' + ','.join('!' + t for t in f.forb))
    if f.res:
        ents = ['%s:%s' % (rc, cands._tok('', rc, amounts[('', rc)]))
                for rc in f.res]
        if f.dup:
            ents.append('%s:$sdup' % f.dup)
        q.append('resources=' + ','.join(ents))
    if f.raw_extra:
        q.append(f.raw_extra)
    return '/resource_providers?' + '&'.join(q)


def matches(cw, f, p, amounts):
    topo = cw.topo
    conds = []
    if f.name is not None:
        conds.append(f.name == 'p%d' % p)
    if f.uuid is not None:
        conds.append(f.uuid == U(p))
    if f.in_tree is not None:
        known = [q for q in topo.parents if U(q) == f.in_tree]
        conds.append(bool(known) and topo.root(known[0]) == topo.root(p))
    for M in f.mem:
        conds.append(Or(*[cw.in_agg(p, a) for a in M]))
    for a in f.fmem:
        conds.append(Not(cw.in_agg(p, a)))
    for K in f.req:
        conds.append(Or(*[cw.has_trait(p, t) for t in K]))
    for t in f.forb:
        conds.append(Not(cw.has_trait(p, t)))
    for rc in f.res:
        conds.append(cw.fits(p, rc, amounts[('', rc)]))
    if f.dup:
        # "for each resources entry an inventory of that class with room for
        # the amount": both entries of the class
        conds.append(cw.fits(p, f.dup, amounts['dup']))
    return And(*conds)


DIMS = dict(
    name=[dict(name='p2'), dict(name='nope')],
    uuid=[dict(uuid=U(3)), dict(uuid=UNKNOWN_UUID)],
    in_tree=[dict(in_tree=U(2)), dict(in_tree=U(3))],
    member_of=[dict(mem=[[1]]), dict(mem=[[1, 2]]), dict(mem=[[1], [2]]),
               dict(fmem=[1]), dict(mem=[[1]], fmem=[2]), dict(mem=[[9]])],
    required=[dict(req=[[T1]]), dict(req=[[T1, T2]]), dict(forb=[T1]),
              dict(req=[[T1]], forb=[T2])],
    resources=[dict(res={'VCPU': None})],
)


def combinations(mode):
    """filter combinations: every variant of every 2 / 3 / all 6 of the six
    filters together ('pairs', 'triples', 'six'); 'all' = the full product
    (1889 combinations, does not finish within the budget: not used)"""
    import itertools
    names = sorted(DIMS)
    out = []
    if mode in ('pairs', 'triples', 'six'):
        k = dict(pairs=2, triples=3, six=6)[mode]
        for dims in itertools.combinations(names, k):
            for choice in itertools.product(*[DIMS[n] for n in dims]):
                kw = {}
                for c in choice:
                    kw.update(c)
                out.append(kw)
    else:
        for choice in itertools.product(*[[None] + DIMS[n] for n in names]):
            kw = {}
            for c in choice:
                if c:
                    kw.update(c)
            if kw:
                out.append(kw)
    return out


def unknown_name_combinations():
    """an unknown trait (required / forbidden) or resource class together
    with every variant of every other filter: 400 whatever the other filter
    matches.  Where the other filter names no provider / only unknown
    aggregates the statement also promises an empty list; there either answer
    is accepted."""
    out = []
    variants = [dict(v, _dim=n) for n in sorted(DIMS) for v in DIMS[n]]
    variants.append(dict(in_tree=UNKNOWN_UUID, _dim='in_tree'))
    variants.append(dict(req=[[T2]], forb=[T1], _dim='required'))
    for v in variants:
        v = dict(v)
        v.pop('_dim')
        collides = (v.get('uuid') == UNKNOWN_UUID or
                    v.get('in_tree') == UNKNOWN_UUID or
                    v.get('mem') == [[9]])
        for unk in (dict(res={'CUSTOM_NOPE': 1}), dict(req=[['CUSTOM_NOPE']]),
                    dict(forb=['CUSTOM_NOPE'])):
            kw = dict(v)
            for k, val in unk.items():
                if k == 'res':
                    kw['res'] = dict(kw.get('res') or {}, **val)
                else:
                    kw[k] = list(kw.get(k) or []) + val
            kw.update(expect=400, or_empty=collides)
            out.append(kw)
    return out


def make_family(fname, topo, f, usage=False, agg_alias=None):
    combos = f if isinstance(f, list) else None

    def path(ctx):
        from engine import scenario
        app.setup()
        f_ = F(**combos[symex.choose(len(combos))]) if combos else f
        scenario.AGG_ALIAS.clear()
        scenario.AGG_ALIAS.update(agg_alias or {})
        try:
            return path_(ctx, f_)
        finally:
            scenario.AGG_ALIAS.clear()

    def path_(ctx, f):
        with cands.CW(ctx, topo, usage=usage, naggs=3) as cw:
            q = cands.Query({'': cands.Group(f.res)})
            amounts = cands.amount_terms(ctx, q)
            if f.dup:
                amounts['dup'] = ctx.int('req_dup', 1, 2 ** 63 - 1)
                ctx.data.setdefault('tokens', {})['$sdup'] = amounts['dup']
            r = app.call('GET', qs_of(f, amounts), version=f.version)
            if f.dup and r.status == 400:
                # refusing a class named twice is a legitimate answer
                return finish(ctx, '400')
            if f.or_empty and r.status == 200 and \
                    not r.json['resource_providers']:
                return finish(ctx, '200:empty')
            if r.status != f.expect:
                runner.violation(ctx, 'status', 'expected %d got %d: %s' % (
                    f.expect, r.status, (r.error_detail or '')[:200]),
                    sig='%d' % r.status)
                return finish(ctx, str(r.status))
            if r.status != 200:
                return finish(ctx, str(r.status))
            got = [int(x['uuid'][:8]) for x in r.json['resource_providers']]
            if len(got) != len(set(got)):
                runner.violation(ctx, 'no-duplicates',
                                 'a provider is listed twice')
            for p in sorted(cw.topo.parents):
                m = matches(cw, f, p, amounts)
                if p in got:
                    obligation(ctx, 'only-matching-listed', zbool(Not(m)),
                               'provider %d is listed but does not satisfy '
                               'the filters' % p, sig='extra')
                else:
                    obligation(ctx, 'all-matching-listed', zbool(m),
                               'provider %d satisfies every filter but is '
                               'not listed' % p, sig='omitted')
            return finish(ctx, '200:%d' % len(got))
    return Family('list/' + fname, path,
                  bounds=dict(topology=topo.parents,
                              optional_inventories=topo.invs,
                              optional_traits=topo.traits,
                              optional_aggregates=topo.aggs, filter=fname,
                              combinations=len(combos) if combos else 1))


def families(tier):
    I, T, A, M = TOPO_I, TOPO_T, TOPO_A, TOPO_M
    fams = [
        ('name', I, F(name='p2')),
        ('name-unknown', I, F(name='nope')),
        ('name-empty', I, F(name='')),
        ('uuid', I, F(uuid=U(3))),
        ('uuid-unknown', I, F(uuid=UNKNOWN_UUID)),
        ('in_tree-child', I, F(in_tree=U(2))),
        ('in_tree-unknown', I, F(in_tree=UNKNOWN_UUID)),
        ('resources', I, F(res={'VCPU': None})),
        ('resources-2', I, F(res={'VCPU': None, 'DISK_GB': 1})),
        ('resources-unknown-class', I, F(res={'CUSTOM_NOPE': 1}, expect=400)),
        ('resources-class-twice', I, F(res={'VCPU': None}, dup='VCPU')),
        ('member_of', A, F(mem=[[1]])),
        ('member_of-in', A, F(mem=[[1, 2]])),
        ('member_of-not', A, F(fmem=[1])),
        ('member_of-notin', A, F(fmem=[1, 2])),
        ('member_of-repeated', A, F(mem=[[1], [2]])),
        ('member_of-unknown-agg', A, F(mem=[[3]])),
        ('member_of-in-unknown-agg', A, F(mem=[[1, 3]])),
        ('member_of-pos+neg', A, F(mem=[[1]], fmem=[2])),
        ('member_of-known+unknown', A, F(mem=[[1], [9]])),
        ('member_of-unknown+known', A, F(mem=[[9], [1]])),
        ('member_of-known+in-unknown', A, F(mem=[[1], [9, 8]])),
        ('member_of-in-mixed+unknown', A, F(mem=[[1, 9], [9]])),
        ('member_of-unknown+neg', A, F(mem=[[9]], fmem=[1])),
        ('member_of-three', A, F(mem=[[1], [2], [1, 2]])),
        ('member_of-known+memberless', A, F(mem=[[1], [3]])),
        ('member_of-never-used', A, F(mem=[[9]])),
        ('required', T, F(req=[[T1]])),
        ('required-and', T, F(req=[[T1], [T2]])),
        ('required-in', T, F(req=[[T1, T2]])),
        ('required-not', T, F(forb=[T1])),
        ('required-mixed', T, F(req=[[T1]], forb=[T2])),
        ('required-unknown-trait', T, F(req=[['CUSTOM_NOPE']], expect=400)),
        ('mixed', M, F(in_tree=U(1), mem=[[1]], req=[[T1]],
                       res={'VCPU': None})),
        ('mixed-2', M, F(fmem=[1], forb=[T1], res={'VCPU': None})),
    ]
    fams += [
        # every inventory carries usage, so a provider holds allocations of
        # classes other than the one asked for
        ('resources+usage', I, F(res={'VCPU': None}), True),
        ('resources-2+usage', I, F(res={'VCPU': None, 'DISK_GB': 1}), True),
    ]
    # combinations of filters, generated: every pair of the six filters in
    # every variant (quick); every triple and all six together (thorough).
    # Combinations of exactly 4 and 5 filters (1200 of them) are outside
    # the claim.
    fams.append(('combinations-pairs', TOPO, combinations('pairs')))
    fams.append(('unknown-name+filter', TOPO, unknown_name_combinations()))
    if tier == 'thorough':
        fams.append(('combinations-triples', TOPO_C, combinations('triples')))
        fams.append(('combinations-six', TOPO_C, combinations('six')))
        fams += [
            ('mixed+usage', M, F(in_tree=U(1), mem=[[1]], req=[[T1]],
                                 res={'VCPU': None}), True),
            ('required-1.18', T, F(req=[[T1]], version='1.18')),
            ('member_of-1.3', A, F(mem=[[1]], version='1.3')),
            ('resources-1.4', I, F(res={'VCPU': None}, version='1.4')),
            ('full', TOPO, F(mem=[[1, 2]], req=[[T1, T2]],
                             res={'VCPU': None})),
        ]
    out = [make_family(x[0], x[1], x[2], *(x[3:])) for x in fams]
    # aggregates whose stored uuid is spelled with upper-case digits (the
    # API keeps the spelling it was given), named with that spelling
    upper = {1: AGG(1).upper(), 2: AGG(2).upper()}
    out += [make_family(n + '/upper-case-aggregate', A, f_, False, upper)
            for n, f_ in (('member_of', F(mem=[[1]])),
                          ('member_of-in', F(mem=[[1, 2]])),
                          ('member_of-not', F(fmem=[1])),
                          ('member_of-pos+neg', F(mem=[[1]], fmem=[2])))]
    return out


if __name__ == '__main__':
    sys.exit(runner.run_check(
        'C13', families, functions=FUNCTIONS,
        assumptions=['topology, names, filter shape concrete per family; '
                     'inventory numbers, usage, requested amounts, '
                     'trait/aggregate bits symbolic',
                     'oracle matches(p) = DESIGN Appendix B (direct '
                     'aggregate membership, no root spanning)']))
