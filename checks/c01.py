"""C01 — allocation writes never over-commit inventory or break unit
constraints.  One inductive step from an arbitrary pre-state (DESIGN 5/C01).
"""
import sys
import z3

from engine import app, runner, symex
from engine.runner import Family, obligation, finish
from engine.scenario import (World, U, CONS, used_sum, capacity, find_rows,
                             zpres)
from engine.symex import to_z3

FUNCTIONS = [
    'placement.handlers.allocation._set_allocations_for_consumer',
    'placement.handlers.allocation.set_allocations',
    'placement.handlers.allocation.inspect_consumers',
    'placement.handlers.allocation.create_allocation_list',
    'placement.handlers.reshaper.reshape',
    'placement.handlers.util.ensure_consumer',
    'placement.handlers.util.update_consumers',
    'placement.objects.allocation.replace_all',
    'placement.objects.allocation._set_allocations',
    'placement.objects.allocation._check_capacity_exceeded',
    'placement.objects.allocation._delete_allocations_for_consumer',
    'placement.objects.reshaper.reshape',
    'placement.objects.resource_provider._set_inventory',
    'placement.objects.resource_provider.ResourceProvider.increment_generation',
    'placement.objects.consumer.Consumer.increment_generation',
    'placement.objects.consumer.delete_consumers_if_no_allocations',
    'placement.util.extract_json (real jsonschema validation)',
]


def post_inventory(state, pid, rcid):
    rows = [r for r in state['inventories']
            if r.vals['resource_provider_id'] == pid and
            r.vals['resource_class_id'] == rcid]
    return rows


def check_success(ctx, w, pre, post, placed):
    """placed: {(pid, rcid): [amount terms]} named by the accepted request.
    Asserts the C01 clauses on the post-state."""
    keys = set()
    for r in pre['inventories'] + post['inventories'] + \
            pre['allocations'] + post['allocations']:
        keys.add((r.vals['resource_provider_id'],
                  r.vals['resource_class_id']))
    keys |= set(placed)
    for (pid, rcid) in sorted(keys):
        amounts = [to_z3(a) for a in placed.get((pid, rcid), [])]
        total_post = used_sum(post, pid, rcid)
        total_pre = used_sum(pre, pid, rcid)
        invs = post_inventory(post, pid, rcid)
        pos = z3.Or(*[a > 0 for a in amounts]) if amounts else z3.BoolVal(False)
        # (a) positive placement needs an inventory, unit constraints hold
        if amounts:
            if not invs:
                obligation(ctx, 'inventory-exists', pos,
                           'positive amount on p%d rc%d without inventory'
                           % (pid, rcid), sig='p%d/rc%d' % (pid, rcid))
                continue
            # several rows may stand for the key (an optional old row and
            # one inserted by the request); at most one is present
            from engine.scenario import _merged
            from engine.symdb import Or as _Or, zbool as _zb
            present = _zb(_Or(*[i.present for i in invs]))
            v = {f: _merged(invs, f)[1] for f in (
                'total', 'reserved', 'min_unit', 'max_unit', 'step_size',
                'allocation_ratio')}
            obligation(ctx, 'inventory-exists',
                       z3.And(pos, z3.Not(present)),
                       'positive amount on p%d rc%d without inventory'
                       % (pid, rcid))
            for a in amounts:
                bad = z3.And(a > 0, present, z3.Or(
                    a < to_z3(v['min_unit']), a > to_z3(v['max_unit']),
                    symex.z_mod(a, to_z3(v['step_size'])) != 0))
                obligation(ctx, 'unit-constraints', bad,
                           'amount violates min/max/step on p%d rc%d'
                           % (pid, rcid))
            cap = capacity(v)
            obligation(ctx, 'capacity',
                       z3.And(pos, present, z3.ToReal(total_post) > cap),
                       'total used exceeds (total-reserved)*ratio on p%d rc%d'
                       % (pid, rcid))
        # (b) where nothing positive was placed, usage never grows
        obligation(ctx, 'no-growth-elsewhere',
                   z3.And(z3.Not(pos), total_post > total_pre),
                   'usage grew on p%d rc%d although nothing was placed there'
                   % (pid, rcid))


def base_world(ctx, nprov, rcs, consumers, bystanders, ratio_fixed=None):
    w = World(ctx)
    for rc in rcs:
        w.rc(rc)
    w.project('proj')
    w.user('user')
    for p in range(1, nprov + 1):
        w.provider(p)
        for rc in rcs:
            kw = {}
            if ratio_fixed is not None:
                kw['allocation_ratio'] = ratio_fixed
            w.inventory(p, rc, **kw)
    for n in consumers + bystanders:
        # a consumer row exists iff it has at least one allocation
        # (C12's invariant); bystanders always exist
        bits = []
        for p in range(1, nprov + 1):
            for rc in rcs:
                b = ctx.bool('alloc_c%d_p%d_%s' % (n, p, rc))
                w.allocation(n, p, rc, present=b)
                bits.append(b)
        pres = z3.Or(*bits) if not getattr(ctx, 'concrete', False) \
            else any(bits)
        w.consumer(n, present=pres)
    return w


def fam_put(nprov, rcs, version='1.36', ratio_fixed=None):
    def path(ctx):
        app.setup()
        with base_world(ctx, nprov, rcs, [1], [2], ratio_fixed) as w:
            pre = w.dump()
            placed = {}
            allocs = {}
            for p in range(1, nprov + 1):
                res = {}
                for rc in rcs:
                    a = ctx.int('amt_p%d_%s' % (p, rc))
                    res[rc] = a
                    placed.setdefault((p, w.rcs[rc]), []).append(a)
                allocs[U(p)] = {'resources': res}
            cgen = ctx.int('req_cgen')
            gen_null = ctx.bool('req_cgen_null')
            v = tuple(int(x) for x in version.split('.'))
            body = {'allocations': allocs, 'project_id': 'proj',
                    'user_id': 'user'}
            if v >= (1, 28):
                body['consumer_generation'] = None if symex.fork(gen_null) \
                    else cgen
            if v >= (1, 38):
                body['consumer_type'] = 'INSTANCE'
            r = app.call('PUT', '/allocations/' + CONS(1), body,
                         version=version)
            post = w.dump()
            if r.status == 204:
                check_success(ctx, w, pre, post, placed)
            elif r.status >= 500:
                runner.violation(ctx, 'no-5xx', 'status %d' % r.status)
            return finish(ctx, str(r.status))
    name = 'put-%dp-%s%s@%s' % (nprov, '+'.join(rcs),
                                '-ratio%s' % ratio_fixed if ratio_fixed
                                else '', version)
    return Family(name, path, expect={'204', '409', '400'},
                  bounds=dict(providers=nprov, classes=list(rcs),
                              consumers='1 writer (new or existing), '
                                        '1 bystander',
                              symbolic='all 6 inventory fields per (p,rc), '
                                       'presence of every inventory and prior '
                                       'allocation, all used amounts, all '
                                       'requested amounts, generations'))


def fam_post(nprov, rcs, clear_first=False, version='1.36'):
    """POST /allocations: consumer 1 (existing or not) and consumer 3 (new)
    land on the same inventories; bystander 2."""
    def path(ctx):
        app.setup()
        with base_world(ctx, nprov, rcs, [1], [2]) as w:
            pre = w.dump()
            placed = {}
            body = {}
            for n in (1, 3):
                allocs = {}
                if not (clear_first and n == 1):
                    for p in range(1, nprov + 1):
                        res = {}
                        for rc in rcs:
                            a = ctx.int('amt_c%d_p%d_%s' % (n, p, rc))
                            res[rc] = a
                            placed.setdefault((p, w.rcs[rc]), []).append(a)
                        allocs[U(p)] = {'resources': res}
                if n == 1:
                    gen_null = ctx.bool('req_cgen1_null')
                    cg = None if symex.fork(gen_null) else ctx.int('req_cgen1')
                else:
                    cg = None
                body[CONS(n)] = {'allocations': allocs, 'project_id': 'proj',
                                 'user_id': 'user', 'consumer_generation': cg}
            r = app.call('POST', '/allocations', body, version=version)
            post = w.dump()
            if r.status == 204:
                check_success(ctx, w, pre, post, placed)
            elif r.status >= 500:
                runner.violation(ctx, 'no-5xx', 'status %d' % r.status)
            return finish(ctx, str(r.status))
    name = 'post-2c-%dp-%s%s' % (nprov, '+'.join(rcs),
                                 '-clear' if clear_first else '')
    return Family(name, path, expect={'204', '409', '400'},
                  bounds=dict(providers=nprov, classes=list(rcs),
                              consumers='2 writers on the same inventories '
                                        '(one possibly clearing), 1 bystander'))


def fam_reshape(move=True):
    """POST /reshaper: VCPU inventory moves from p1 to p2 (new symbolic
    total / max_unit), c1's allocation follows; capacity is judged against
    the inventory the reshape leaves behind."""
    from checks import corpus

    def path(ctx):
        app.setup()
        with corpus.std_world(ctx) as w:
            pre = w.dump()
            req = corpus.reshape(move, 2)
            r = req(ctx, w, None)
            post = w.dump()
            if r.status == 204:
                placed = {(2, w.rcs['VCPU']): [ctx.int('amt_0')]} if move \
                    else {}
                check_success(ctx, w, pre, post, placed)
            elif r.status >= 500:
                runner.violation(ctx, 'no-5xx', 'status %d' % r.status)
            return finish(ctx, str(r.status))
    return Family('reshape-%s' % ('move' if move else 'clear'), path,
                  expect={'204', '409'},
                  bounds=dict(providers='root + child', request='reshaper '
                              'moving a class between providers with the '
                              'allocation following it'))


def families(tier):
    fams = [fam_put(1, ['VCPU']), fam_reshape(True),
            fam_post(1, ['VCPU']),
            fam_post(1, ['VCPU'], clear_first=True)]
    if tier == 'thorough':
        fams += [fam_reshape(False),
                 fam_put(2, ['VCPU']), fam_put(1, ['VCPU', 'DISK_GB']),
                 fam_post(2, ['VCPU']),
                 fam_put(1, ['VCPU'], version='1.12'),
                 fam_put(1, ['VCPU'], version='1.39')]
    return fams


ASSUMPTIONS = [
    'inventory fields range over the bounds of BASE_INVENTORY_SCHEMA only '
    '(read from the schema object); allocation_ratio is any real <= maximum',
    '(total-reserved)*allocation_ratio and amount % step_size are '
    'uninterpreted (fmul/imod) in proofs, exact in counterexamples',
    'database integer width not modelled (python/z3 integers)',
    'projects/users pre-exist; uuids, names, tree shape concrete per family',
    'symbolic DB interpreter (engine/symdb.py) is the trusted model of SQL; '
    'differentially validated against SQLite by checks/tv.py',
]

if __name__ == '__main__':
    sys.exit(runner.run_check(
        'C01', families, technique='dynamic symbolic execution of the real '
        'WSGI request path over a symbolic database; z3 decides each branch '
        'and each obligation; counterexamples replayed on real SQLite',
        functions=FUNCTIONS, assumptions=ASSUMPTIONS))
