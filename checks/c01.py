"""C01 — allocation writes never over-commit inventory or break unit
constraints.  One inductive step from an arbitrary pre-state (DESIGN 5/C01).
"""
import sys
import z3

from engine import app, runner, symex
from engine.runner import Family, obligation, finish
from engine.scenario import (World, U, CONS, used_sum, capacity, find_rows,
                             zpres)
from engine.symex import to_z3

FUNCTIONS = [
    'placement.handlers.allocation._set_allocations_for_consumer',
    'placement.handlers.allocation.set_allocations',
    'placement.handlers.allocation.inspect_consumers',
    'placement.handlers.allocation.create_allocation_list',
    'placement.handlers.reshaper.reshape',
    'placement.handlers.util.ensure_consumer',
    'placement.handlers.util.update_consumers',
    'placement.objects.allocation.replace_all',
    'placement.objects.allocation._set_allocations',
    'placement.objects.allocation._check_capacity_exceeded',
    'placement.objects.allocation._delete_allocations_for_consumer',
    'placement.objects.reshaper.reshape',
    'placement.objects.resource_provider._set_inventory',
    'placement.objects.resource_provider.ResourceProvider.increment_generation',
    'placement.objects.consumer.Consumer.increment_generation',
    'placement.objects.consumer.delete_consumers_if_no_allocations',
    'placement.util.extract_json (real jsonschema validation)',
]


def post_inventory(state, pid, rcid):
    rows = [r for r in state['inventories']
            if r.vals['resource_provider_id'] == pid and
            r.vals['resource_class_id'] == rcid]
    return rows


def check_success(ctx, w, pre, post, placed):
    """placed: {(pid, rcid): [amount terms]} named by the accepted request.
    Asserts the C01 clauses on the post-state."""
    keys = set()
    for r in pre['inventories'] + post['inventories'] + \
            pre['allocations'] + post['allocations']:
        keys.add((r.vals['resource_provider_id'],
                  r.vals['resource_class_id']))
    keys |= set(placed)
    for (pid, rcid) in sorted(keys):
        amounts = [to_z3(a) for a in placed.get((pid, rcid), [])]
        total_post = used_sum(post, pid, rcid)
        total_pre = used_sum(pre, pid, rcid)
        invs = post_inventory(post, pid, rcid)
        pos = z3.Or(*[a > 0 for a in amounts]) if amounts else z3.BoolVal(False)
        # (a) positive placement needs an inventory, unit constraints hold
        if amounts:
            if not invs:
                obligation(ctx, 'inventory-exists', pos,
                           'positive amount on p%d rc%d without inventory'
                           % (pid, rcid), sig='p%d/rc%d' % (pid, rcid))
                continue
            # several rows may stand for the key (an optional old row and
            # one inserted by the request); at most one is present
            from engine.scenario import _merged
            from engine.symdb import Or as _Or, zbool as _zb
            present = _zb(_Or(*[i.present for i in invs]))
            v = {f: _merged(invs, f)[1] for f in (
                'total', 'reserved', 'min_unit', 'max_unit', 'step_size',
                'allocation_ratio')}
            obligation(ctx, 'inventory-exists',
                       z3.And(pos, z3.Not(present)),
                       'positive amount on p%d rc%d without inventory'
                       % (pid, rcid))
            for a in amounts:
                bad = z3.And(a > 0, present, z3.Or(
                    a < to_z3(v['min_unit']), a > to_z3(v['max_unit']),
                    symex.z_mod(a, to_z3(v['step_size'])) != 0))
                obligation(ctx, 'unit-constraints', bad,
                           'amount violates min/max/step on p%d rc%d'
                           % (pid, rcid))
            cap = capacity(v)
            obligation(ctx, 'capacity',
                       z3.And(pos, present, z3.ToReal(total_post) > cap),
                       'total used exceeds (total-reserved)*ratio on p%d rc%d'
                       % (pid, rcid))
        # (b) where nothing positive was placed, usage never grows
        obligation(ctx, 'no-growth-elsewhere',
                   z3.And(z3.Not(pos), total_post > total_pre),
                   'usage grew on p%d rc%d although nothing was placed there'
                   % (pid, rcid))


def base_world(ctx, nprov, rcs, consumers, bystanders, ratio_fixed=None,
               tree='flat'):
    w = World(ctx)
    for rc in rcs:
        w.rc(rc)
    w.project('proj')
    w.user('user')
    w.consumer_type('INSTANCE')
    for p in range(1, nprov + 1):
        # 'chain': p1 <- p2 <- p3 ...; 'star': p1 <- p2, p1 <- p3
        parent = None if p == 1 or tree == 'flat' else \
            (p - 1 if tree == 'chain' else 1)
        w.provider(p, parent=parent)
        for rc in rcs:
            kw = {}
            if ratio_fixed is not None:
                kw['allocation_ratio'] = ratio_fixed
            w.inventory(p, rc, **kw)
    for n in consumers + bystanders:
        # a consumer row exists iff it has at least one allocation
        # (C12's invariant); bystanders always exist
        bits = []
        for p in range(1, nprov + 1):
            for rc in rcs:
                b = ctx.bool('alloc_c%d_p%d_%s' % (n, p, rc))
                w.allocation(n, p, rc, present=b)
                bits.append(b)
        pres = z3.Or(*bits) if not getattr(ctx, 'concrete', False) \
            else any(bits)
        w.consumer(n, present=pres)
    return w


def writer_total(state, consumer, pid, rcid):
    """z3 Int: what `consumer` holds of class rcid on provider pid"""
    from engine.scenario import zpres, zsum
    return zsum([z3.If(zpres(r), to_z3(r.vals['used']), 0)
                 for r in state['allocations']
                 if r.vals['resource_provider_id'] == pid and
                 r.vals['resource_class_id'] == rcid and
                 r.vals['consumer_id'] == consumer])


def fam_put(nprov, rcs, version='1.36', ratio_fixed=None, tree='flat',
            dup=False):
    """dup: the list body of the formats below 1.12 names provider 1 twice
    (own symbolic amounts).  What the request "places" on the pair is then
    read from the stored result - whatever the service makes of the two
    entries, the amount the consumer ends up holding there must obey the
    unit constraints and the capacity."""
    def path(ctx):
        app.setup()
        with base_world(ctx, nprov, rcs, [1], [2], ratio_fixed, tree) as w:
            pre = w.dump()
            placed = {}
            allocs = {}
            for p in range(1, nprov + 1):
                res = {}
                for rc in rcs:
                    a = ctx.int('amt_p%d_%s' % (p, rc))
                    res[rc] = a
                    placed.setdefault((p, w.rcs[rc]), []).append(a)
                allocs[U(p)] = {'resources': res}
            from checks import corpus
            if version == 'sym':
                # every microversion: the band fixes the document format,
                # the minor inside it is symbolic
                bands = [b for b in corpus.BANDS_PUT if b[1] < 12] if dup \
                    else corpus.BANDS_PUT
                lo, hi = bands[symex.choose(len(bands))]
                app.sym_minor(ctx, lo, hi)
                body = corpus._alloc_body(ctx, allocs, '1.%d' % lo, n=1)
            else:
                body = corpus._alloc_body(ctx, allocs, version, n=1)
            if dup:
                body['allocations'].append({
                    'resource_provider': {'uuid': U(1)},
                    'resources': {rc: ctx.int('amt_dup_%s' % rc)
                                  for rc in rcs}})
            r = app.call('PUT', '/allocations/' + CONS(1), body,
                         version=version)
            post = w.dump()
            if dup:
                for rc in rcs:
                    placed[(1, w.rcs[rc])] = [
                        writer_total(post, CONS(1), 1, w.rcs[rc])]
            if r.status == 204:
                check_success(ctx, w, pre, post, placed)
            elif r.status >= 500:
                runner.violation(ctx, 'no-5xx', 'status %d' % r.status)
            return finish(ctx, str(r.status))
    name = 'put-%dp%s-%s%s%s@%s' % (nprov, '' if tree == 'flat' else
                                    '-' + tree, '+'.join(rcs),
                                    '-ratio%s' % ratio_fixed if ratio_fixed
                                    else '', '-twice' if dup else '', version)
    return Family(name, path, expect={'204', '409', '400'},
                  bounds=dict(providers=nprov, classes=list(rcs),
                              consumers='1 writer (new or existing), '
                                        '1 bystander',
                              symbolic='all 6 inventory fields per (p,rc), '
                                       'presence of every inventory and prior '
                                       'allocation, all used amounts, all '
                                       'requested amounts, generations'))


def fam_post(nprov, rcs, clear_first=False, version='1.36',
             writers=(1, 3), tree='flat'):
    """POST /allocations: consumer 1 (existing or not) and the new consumers
    3, 4.. land on the same inventories; bystander 2."""
    def path(ctx):
        app.setup()
        with base_world(ctx, nprov, rcs, [1], [2], tree=tree) as w:
            pre = w.dump()
            placed = {}
            body = {}
            for n in writers:
                allocs = {}
                if not (clear_first and n == 1):
                    for p in range(1, nprov + 1):
                        res = {}
                        for rc in rcs:
                            a = ctx.int('amt_c%d_p%d_%s' % (n, p, rc))
                            res[rc] = a
                            placed.setdefault((p, w.rcs[rc]), []).append(a)
                        allocs[U(p)] = {'resources': res}
                if n == 1:
                    gen_null = ctx.bool('req_cgen1_null')
                    cg = None if symex.fork(gen_null) else ctx.int('req_cgen1')
                else:
                    cg = None
                body[CONS(n)] = {'allocations': allocs, 'project_id': 'proj',
                                 'user_id': 'user'}
                v = tuple(int(x) for x in version.split('.'))
                if v >= (1, 28):
                    body[CONS(n)]['consumer_generation'] = cg
                if v >= (1, 38):
                    body[CONS(n)]['consumer_type'] = 'INSTANCE'
            r = app.call('POST', '/allocations', body, version=version)
            post = w.dump()
            if r.status == 204:
                check_success(ctx, w, pre, post, placed)
            elif r.status >= 500:
                runner.violation(ctx, 'no-5xx', 'status %d' % r.status)
            return finish(ctx, str(r.status))
    name = 'post-%dc-%dp%s-%s%s%s' % (
        len(writers), nprov, '' if tree == 'flat' else '-' + tree,
        '+'.join(rcs), '-clear' if clear_first else '',
        '' if version == '1.36' else '@' + version)
    return Family(name, path, expect={'204', '409', '400'},
                  bounds=dict(providers=nprov, classes=list(rcs),
                              consumers='2 writers on the same inventories '
                                        '(one possibly clearing), 1 bystander'))


def fam_reshape(move=True):
    """POST /reshaper: VCPU inventory moves from p1 to p2 (new symbolic
    total / max_unit), c1's allocation follows; capacity is judged against
    the inventory the reshape leaves behind."""
    from checks import corpus

    def path(ctx):
        app.setup()
        with corpus.std_world(ctx) as w:
            pre = w.dump()
            req = corpus.reshape(move, 2)
            r = req(ctx, w, None)
            post = w.dump()
            if r.status == 204:
                placed = {(2, w.rcs['VCPU']): [ctx.int('amt_0')]} if move \
                    else {}
                check_success(ctx, w, pre, post, placed)
            elif r.status >= 500:
                runner.violation(ctx, 'no-5xx', 'status %d' % r.status)
            return finish(ctx, str(r.status))
    return Family('reshape-%s' % ('move' if move else 'clear'), path,
                  expect={'204', '409'},
                  bounds=dict(providers='root + child', request='reshaper '
                              'moving a class between providers with the '
                              'allocation following it'))


def fam_reshape_general():
    """POST /reshaper rewriting the VCPU inventory of two providers (every
    field the request can carry symbolic) and the allocations of an existing
    and of a new consumer on both; a bystander keeps its own"""
    def path(ctx):
        app.setup()
        with base_world(ctx, 2, ['VCPU'], [1], [2], tree='chain') as w:
            pre = w.dump()
            inv = {}
            for p in (1, 2):
                inv[U(p)] = {
                    'resource_provider_generation': ctx.int('req_gen%d' % p),
                    'inventories': {'VCPU': {
                        'total': ctx.int('rs_total%d' % p),
                        'reserved': ctx.int('rs_reserved%d' % p),
                        'min_unit': ctx.int('rs_min%d' % p),
                        'max_unit': ctx.int('rs_max%d' % p),
                        'step_size': ctx.int('rs_step%d' % p)}}}
            rc = w.rcs['VCPU']
            a11, a12, a32 = (ctx.int(n) for n in ('a11', 'a12', 'a32'))
            placed = {(1, rc): [a11], (2, rc): [a12, a32]}
            null1 = symex.fork(ctx.bool('req_cgen1_null'))
            allocs = {
                CONS(1): {'allocations': {
                    U(1): {'resources': {'VCPU': a11}},
                    U(2): {'resources': {'VCPU': a12}}},
                    'project_id': 'proj', 'user_id': 'user',
                    'consumer_generation': None if null1
                    else ctx.int('req_cgen1')},
                CONS(3): {'allocations': {
                    U(2): {'resources': {'VCPU': a32}}},
                    'project_id': 'proj', 'user_id': 'user',
                    'consumer_generation': None}}
            r = app.call('POST', '/reshaper', {'inventories': inv,
                                               'allocations': allocs},
                         version='1.36', roles='admin,service')
            post = w.dump()
            if r.status == 204:
                check_success(ctx, w, pre, post, placed)
            elif r.status >= 500:
                runner.violation(ctx, 'no-5xx', 'status %d' % r.status)
            return finish(ctx, str(r.status))
    return Family('reshape-general', path, expect={'204', '409', '400'},
                  bounds=dict(providers='root + child', request='reshaper '
                              'rewriting both inventories (5 symbolic fields '
                              'each) and the allocations of 2 consumers'))


def families(tier):
    fams = [fam_put(1, ['VCPU']), fam_reshape(True),
            fam_post(1, ['VCPU']),
            fam_post(1, ['VCPU'], clear_first=True),
            fam_put(1, ['VCPU'], version='sym'),
            fam_put(1, ['VCPU'], version='sym', dup=True),
            fam_reshape_general(),
            # several classes asked of one provider; each inventory may be
            # missing on its own
            fam_put(1, ['VCPU', 'DISK_GB']),
            fam_post(1, ['VCPU', 'DISK_GB'])]
    if tier == 'thorough':
        fams += [fam_reshape(False),
                 fam_put(2, ['VCPU']),
                 fam_post(2, ['VCPU']),
                 fam_put(1, ['VCPU'], version='1.12'),
                 fam_put(1, ['VCPU'], version='1.39'),
                 fam_put(2, ['VCPU'], tree='chain'),
                 fam_put(3, ['VCPU'], tree='star'),
                 fam_put(2, ['VCPU', 'DISK_GB']),
                 fam_put(2, ['VCPU'], version='sym', tree='chain'),
                 fam_put(1, ['VCPU'], version='1.0'),
                 fam_put(1, ['VCPU'], version='1.8'),
                 fam_put(1, ['VCPU'], version='1.28'),
                 fam_put(1, ['VCPU'], ratio_fixed=1.5),
                 fam_put(1, ['VCPU'], ratio_fixed=0.3),
                 fam_post(1, ['VCPU'], writers=(1, 3, 4)),
                 fam_post(2, ['VCPU'], tree='chain', clear_first=True),
                 fam_post(1, ['VCPU'], version='1.13'),
                 fam_post(1, ['VCPU'], version='1.28'),
                 fam_post(1, ['VCPU'], version='1.38')]
    return fams


ASSUMPTIONS = [
    'inventory fields range over the bounds of BASE_INVENTORY_SCHEMA only '
    '(read from the schema object); allocation_ratio is any real <= maximum',
    '(total-reserved)*allocation_ratio and amount % step_size are '
    'uninterpreted (fmul/imod) in proofs, exact in counterexamples',
    'bound parameters outside the signed 64-bit range raise like the '
    'sqlite3 driver; stored integers of the pre-state within +-2^62',
    'projects/users pre-exist; uuids, names, tree shape concrete per family',
    'symbolic DB interpreter (engine/symdb.py) is the trusted model of SQL; '
    'differentially validated against SQLite by checks/tv.py',
]

if __name__ == '__main__':
    sys.exit(runner.run_check(
        'C01', families, technique='dynamic symbolic execution of the real '
        'WSGI request path over a symbolic database; z3 decides each branch '
        'and each obligation; counterexamples replayed on real SQLite',
        functions=FUNCTIONS, assumptions=ASSUMPTIONS))
