"""C10 — generations move forward on every change and only then (DESIGN 5/C10)."""
import sys

from engine import runner
from checks import corpus, asserts


def conc_family(name, existing, mk_reqs, targets, retry_count=None):
    """generations under concurrency: k accepted writes move a generation
    forward by at least k, and no schedule moves one backwards"""
    import z3
    from engine import app
    from engine.runner import Family, obligation, finish
    from engine.scenario import U, CONS, _by_key, _merged
    from engine.symdb import And, Or, zbool
    from engine.symex import to_z3
    from checks import conc, c06

    wf = c06.world_fn(existing)

    def path(ctx):
        app.setup()
        reqs = mk_reqs()
        if retry_count is not None:
            # configuration dimension: the server-side retry budget for
            # provider generation conflicts ([placement]
            # allocation_conflict_retry_count, default 10)
            app.set_conf('placement',
                         allocation_conflict_retry_count=retry_count)
        try:
            pre, results, final, sched, writes = conc.run_concurrent(
                ctx, wf, reqs)
        finally:
            if retry_count is not None:
                app.set_conf('placement', allocation_conflict_retry_count=10)
        ok = [i for i, r in enumerate(results) if r.status < 400]
        ca, cb = _by_key(pre, 'consumers'), _by_key(final, 'consumers')
        pa, pb = _by_key(pre, 'resource_providers'), \
            _by_key(final, 'resource_providers')
        k = (CONS(1),)
        if k in ca and k in cb:
            both = And(Or(*[r.present for r in ca[k]]),
                       Or(*[r.present for r in cb[k]]))
            ga = to_z3(_merged(ca[k], 'generation')[1])
            gb = to_z3(_merged(cb[k], 'generation')[1])
            obligation(ctx, 'generation-never-decreases',
                       z3.And(zbool(both), gb < ga),
                       'consumer generation decreased under concurrency')
            nw = sum(1 for i in ok if targets[i] is not None)
            obligation(ctx, 'write-bumps-consumer-generation',
                       z3.And(zbool(both), gb < ga + nw),
                       '%d accepted writes moved the consumer generation '
                       'forward by less than %d' % (nw, nw),
                       sig='k=%d' % nw)
        for p in (1, 2):
            kk = (U(p),)
            ga = to_z3(_merged(pa[kk], 'generation')[1])
            gb = to_z3(_merged(pb[kk], 'generation')[1])
            n = sum(1 for i in ok if targets[i] == p)
            obligation(ctx, 'placement-bumps-provider-generation',
                       gb < ga + n,
                       '%d accepted placements on provider %d moved its '
                       'generation forward by less than %d' % (n, p, n),
                       sig='p%d k=%d' % (p, n))
        return finish(ctx, ','.join(str(r.status) for r in results))
    return Family('conc/' + name, path, bounds=dict(
        schedules='every interleaving at transaction granularity'))


def read_after_write_family():
    """the generation returned by a write equals the one subsequently read -
    through every route that reports a generation, for a root and for a
    nested provider whose generations are unrelated"""
    import z3
    from engine import app, symex
    from engine.runner import Family, obligation, finish
    from engine.scenario import World, U, AGG
    from engine.symex import to_z3

    def path(ctx):
        app.setup()
        with World(ctx) as w:
            w.rc('VCPU')
            w.trait('CUSTOM_T1')
            w.agg(1)
            w.provider(1)
            w.provider(2, parent=1)
            w.provider(3, parent=2)
            for p in (1, 2, 3):
                w.inventory(p, 'VCPU', present=True)
            p = (1, 2, 3)[symex.choose(3)]
            g = w.prov[p]['generation']
            kind = symex.choose(4)
            base = '/resource_providers/' + U(p)
            if kind == 0:
                r = app.call('PUT', base + '/inventories', {
                    'resource_provider_generation': g, 'inventories': {
                        'VCPU': {'total': ctx.int('t', 1, 1000)}}},
                    version='1.36')
            elif kind == 1:
                r = app.call('PUT', base + '/traits', {
                    'resource_provider_generation': g,
                    'traits': ['CUSTOM_T1']}, version='1.36')
            elif kind == 2:
                r = app.call('PUT', base + '/aggregates', {
                    'resource_provider_generation': g,
                    'aggregates': [AGG(1)]}, version='1.36')
            else:
                r = app.call('PUT', base + '/inventories/VCPU', {
                    'resource_provider_generation': g,
                    'total': ctx.int('t', 1, 1000)}, version='1.36')
            if r.status != 200:
                runner.violation(ctx, 'write-accepted', 'write with the '
                                 'current generation answered %d' % r.status)
                return finish(ctx, str(r.status))
            ret = to_z3(r.json['resource_provider_generation'])
            obligation(ctx, 'change-bumps-provider-generation',
                       z3.Not(ret > to_z3(g)),
                       'returned generation not above the previous one')
            reads = {
                'GET provider': lambda: app.call(
                    'GET', base, version='1.36').json['generation'],
                'list': lambda: [
                    e for e in app.call(
                        'GET', '/resource_providers', version='1.36'
                    ).json['resource_providers']
                    if e['uuid'] == U(p)][0]['generation'],
                'list in_tree': lambda: [
                    e for e in app.call(
                        'GET', '/resource_providers?in_tree=' + U(1),
                        version='1.36').json['resource_providers']
                    if e['uuid'] == U(p)][0]['generation'],
                'list uuid': lambda: app.call(
                    'GET', '/resource_providers?uuid=' + U(p),
                    version='1.36').json['resource_providers'][0][
                        'generation'],
                'inventories': lambda: app.call(
                    'GET', base + '/inventories', version='1.36'
                ).json['resource_provider_generation'],
                'inventory': lambda: app.call(
                    'GET', base + '/inventories/VCPU', version='1.36'
                ).json['resource_provider_generation'],
                'traits': lambda: app.call(
                    'GET', base + '/traits', version='1.36'
                ).json['resource_provider_generation'],
                'aggregates': lambda: app.call(
                    'GET', base + '/aggregates', version='1.36'
                ).json['resource_provider_generation'],
                'usages': lambda: app.call(
                    'GET', base + '/usages', version='1.36'
                ).json['resource_provider_generation'],
                'allocations': lambda: app.call(
                    'GET', base + '/allocations', version='1.36'
                ).json['resource_provider_generation'],
            }
            for name, rd in reads.items():
                obligation(ctx, 'returned-generation-is-read-generation',
                           to_z3(rd()) != ret,
                           'generation read through %s differs from the one '
                           'the write returned' % name, sig=name)
            # the other providers' generations did not move
            for q in (1, 2, 3):
                if q == p:
                    continue
                back = app.call('GET', '/resource_providers/' + U(q),
                                version='1.36').json['generation']
                obligation(ctx, 'error-changes-no-generation',
                           to_z3(back) != to_z3(w.prov[q]['generation']),
                           'generation of an untouched provider moved',
                           sig='other')
            return finish(ctx, 'ok')
    return Family('read-after-write', path, bounds=dict(
        tree='chain of 3 providers with unrelated symbolic generations',
        writes=4, read_routes=10))


def families(tier):
    from checks import c06
    fams = [corpus.make_family(s, [asserts.generations, asserts.no_5xx])
            for s in corpus.shapes(tier)]
    fams.append(conc_family('existing/put+put', True, lambda: [
        c06.put(1, 1, 'int'), c06.put(2, 2, 'int')], {0: 1, 1: 2}))
    # the consumer carries the uuid of the provider it allocates from
    from engine.scenario import U
    fams += [corpus.make_family(s, [asserts.generations, asserts.no_5xx],
                                prefix='consumer-uuid=provider-uuid/',
                                alias={1: U(1)})
             for s in corpus.shapes(tier)
             if s.name in ('alloc-put', 'alloc-post-2c', 'reshape-move',
                           'alloc-put-empty')]
    fams.append(read_after_write_family())
    from checks import c05
    fams.append(conc_family('existing/put+put_invs/retry=1', True, lambda: [
        c06.put(1, 1, 'int'), c05.put_invs(2)], {0: 1, 1: None},
        retry_count=1))
    if tier == 'thorough':
        fams.append(conc_family('existing/put+put_invs/retry=2', True,
                                lambda: [c06.put(1, 1, 'int'),
                                         c05.put_invs(2)], {0: 1, 1: None},
                                retry_count=2))
        fams.append(conc_family('existing/put+post', True, lambda: [
            c06.put(1, 1, 'int'), c06.post(2, 1, 'int')], {0: 1, 1: 1}))
        fams.append(conc_family('new/put+put', False, lambda: [
            c06.put(1, 1, 'null'), c06.put(2, 2, 'null')], {0: 1, 1: 2}))
    return fams


if __name__ == '__main__':
    sys.exit(runner.run_check(
        'C10', families,
        functions=corpus.ALLOC_FUNCS + corpus.INV_FUNCS,
        assumptions=['pre-state: standard world of checks/corpus.py under '
                     'its stated invariant (allocation => inventory, '
                     'consumer row <=> allocations)',
                     'see DESIGN.md 3.4 for shims, 3.2 for arithmetic']))
