"""Assertion sets over (pre, post, response) used with the write corpus."""
import z3

from engine import runner, symdb, symex
from engine.runner import obligation
from engine.scenario import (rel_diff, CORE_TABLES, U, CONS, _by_key, _merged,
                             zpres)
from engine.symdb import And, Or, Not, zbool
from engine.symex import to_z3, Sym


def _z(c):
    return zbool(c)


def _pres(rows):
    return Or(*[r.present for r in rows])


def _gen(rows, col='generation'):
    n, v = _merged(rows, col)
    return v


def no_5xx(ctx, shape, w, pre, post, r):
    if r.status >= 500:
        runner.violation(ctx, 'no-5xx', 'status %d: %s'
                         % (r.status, (r.error_detail or '')[:200]),
                         sig='%d' % r.status)


# ---- C04 -------------------------------------------------------------------

def no_trace(ctx, shape, w, pre, post, r):
    if r.status >= 400:
        d = rel_diff(pre, post, CORE_TABLES)
        obligation(ctx, 'rejected-leaves-no-trace', _z(d),
                   'status %d but providers/inventories/allocations/'
                   'consumers/associations/generations differ' % r.status,
                   sig='%d' % r.status)


# ---- C08 -------------------------------------------------------------------

def no_dangling(ctx, shape, w, pre, post, r, sig=''):
    # sig: fingerprint given by the caller (schedule-specific families)
    provs = {}
    for row in post['resource_providers']:
        provs.setdefault(row.vals['id'], []).append(row)
    invs = {}
    for row in post['inventories']:
        invs.setdefault((row.vals['resource_provider_id'],
                         row.vals['resource_class_id']), []).append(row)
    cons = {}
    for row in post['consumers']:
        cons.setdefault(row.vals['uuid'], []).append(row)
    rcs = {}
    for row in post['resource_classes']:
        rcs.setdefault(row.vals['id'], []).append(row)
    traits = {}
    for row in post['traits']:
        traits.setdefault(row.vals['id'], []).append(row)
    aggs = {}
    for row in post['placement_aggregates']:
        aggs.setdefault(row.vals['id'], []).append(row)
    for a in post['allocations']:
        v = a.vals
        pid, rcid, cu = v['resource_provider_id'], v['resource_class_id'], \
            v['consumer_id']
        obligation(ctx, 'allocation-has-provider',
                   _z(And(a.present, Not(_pres(provs.get(pid, []))))),
                   'allocation of %s refers to missing provider id %s'
                   % (cu, pid))
        obligation(ctx, 'allocation-has-inventory',
                   _z(And(a.present, Not(_pres(invs.get((pid, rcid), []))))),
                   'allocation of %s on provider %s class %s has no '
                   'inventory' % (cu, pid, rcid))
        obligation(ctx, 'allocation-has-consumer',
                   _z(And(a.present, Not(_pres(cons.get(cu, []))))),
                   'allocation refers to consumer %s without a record' % cu)
    for i in post['inventories']:
        v = i.vals
        obligation(ctx, 'inventory-has-provider',
                   _z(And(i.present, Not(_pres(provs.get(
                       v['resource_provider_id'], []))))),
                   'inventory refers to missing provider')
        obligation(ctx, 'inventory-has-class',
                   _z(And(i.present, Not(_pres(rcs.get(
                       v['resource_class_id'], []))))),
                   'inventory refers to missing resource class', sig=sig)
    for t in post['resource_provider_traits']:
        v = t.vals
        obligation(ctx, 'trait-assoc-ends',
                   _z(And(t.present, Or(
                       Not(_pres(provs.get(v['resource_provider_id'], []))),
                       Not(_pres(traits.get(v['trait_id'], [])))))),
                   'trait association with a missing end', sig=sig)
    for g in post['resource_provider_aggregates']:
        v = g.vals
        obligation(ctx, 'aggregate-assoc-ends',
                   _z(And(g.present, Or(
                       Not(_pres(provs.get(v['resource_provider_id'], []))),
                       Not(_pres(aggs.get(v['aggregate_id'], [])))))),
                   'aggregate association with a missing end')
    # parent links
    for p in post['resource_providers']:
        v = p.vals
        for col in ('parent_provider_id', 'root_provider_id'):
            ref = v[col]
            if ref is None:
                continue
            obligation(ctx, 'provider-%s-exists' % col.split('_')[0],
                       _z(And(p.present, Not(_pres(provs.get(ref, []))))),
                       '%s of provider %s missing' % (col, v['uuid']))


# ---- C10 -------------------------------------------------------------------

def generations(ctx, shape, w, pre, post, r):
    ok = r.status < 400
    pa, pb = _by_key(pre, 'resource_providers'), \
        _by_key(post, 'resource_providers')
    ca, cb = _by_key(pre, 'consumers'), _by_key(post, 'consumers')
    for tab, a, b in (('provider', pa, pb), ('consumer', ca, cb)):
        for k in set(a) & set(b):
            both = And(_pres(a[k]), _pres(b[k]))
            if both is False:
                continue
            ga, gb = to_z3(_gen(a[k])), to_z3(_gen(b[k]))
            obligation(ctx, 'generation-never-decreases',
                       z3.And(_z(both), gb < ga),
                       '%s %s generation decreased' % (tab, k[0]))
            if not ok:
                obligation(ctx, 'error-changes-no-generation',
                           z3.And(_z(both), gb != ga),
                           '%s %s generation changed by a request answered '
                           '%d' % (tab, k[0], r.status), sig=str(r.status))
    if not ok:
        return
    # providers on which the accepted write placed resources
    for p in shape.targets:
        k = (U(p),)
        ga, gb = to_z3(_gen(pa[k])), to_z3(_gen(pb[k]))
        obligation(ctx, 'placement-bumps-provider-generation',
                   z3.Not(gb > ga),
                   'accepted allocation write on provider %d did not '
                   'increase its generation' % p)
    for n in shape.consumers:
        k = (CONS(n),)
        if k not in cb:
            continue
        if k in ca:
            both = And(_pres(ca[k]), _pres(cb[k]))
            ga, gb = to_z3(_gen(ca[k])), to_z3(_gen(cb[k]))
            obligation(ctx, 'write-bumps-consumer-generation',
                       z3.And(_z(both), z3.Not(gb > ga)),
                       'accepted write of consumer %d did not increase its '
                       'generation' % n)
    if shape.prov is not None:
        k = (U(shape.prov),)
        table = {'inv': 'inventories', 'traits': 'resource_provider_traits',
                 'aggs': 'resource_provider_aggregates'}[shape.kind]
        v = tuple(int(x) for x in shape.version.split('.')) \
            if shape.version != 'sym' else (1, 39)
        if not (shape.kind == 'aggs' and v < (1, 19)):
            changed = rel_diff(pre, post, (table,))
            ga, gb = to_z3(_gen(pa[k])), to_z3(_gen(pb[k]))
            obligation(ctx, 'change-bumps-provider-generation',
                       z3.And(_z(changed), z3.Not(gb > ga)),
                       '%s of provider %d changed but its generation did '
                       'not increase' % (table, shape.prov))
        # generation reported by the write == generation stored
        js = r.json
        if isinstance(js, dict) and 'resource_provider_generation' in js:
            gb = to_z3(_gen(pb[k]))
            obligation(ctx, 'returned-generation-is-stored-generation',
                       to_z3(js['resource_provider_generation']) != gb,
                       'generation in the response differs from the one '
                       'stored')


# ---- C12 -------------------------------------------------------------------

def consumer_iff_allocations(ctx, shape, w, pre, post, r):
    cons = _by_key(post, 'consumers')
    allocs = {}
    for a in post['allocations']:
        allocs.setdefault(a.vals['consumer_id'], []).append(a)
    for cu in set(k[0] for k in cons) | set(allocs):
        has_row = _pres(cons.get((cu,), []))
        has_alloc = _pres(allocs.get(cu, []))
        obligation(ctx, 'consumer-without-allocations',
                   _z(And(has_row, Not(has_alloc))),
                   'after status %d consumer %s has a record but no '
                   'allocations' % (r.status, cu),
                   sig='%s:%d' % (shape.kind, r.status))
        obligation(ctx, 'allocations-without-consumer',
                   _z(And(has_alloc, Not(has_row))),
                   'after status %d consumer %s has allocations but no '
                   'record' % (r.status, cu),
                   sig='%s:%d' % (shape.kind, r.status))


def consumer_attributes(ctx, shape, w, pre, post, r):
    """on an accepted allocation write the consumer carries the project,
    user (and type) the request named"""
    if r.status >= 400 or shape.kind not in ('alloc', 'reshape') or \
            shape.version == 'sym':
        return
    cons = _by_key(post, 'consumers')
    proj = {row.vals['external_id']: row.vals['id']
            for row in post['projects'] if row.present is True}
    users = {row.vals['external_id']: row.vals['id']
             for row in post['users'] if row.present is True}
    ctypes = {row.vals['name']: row.vals['id']
              for row in post['consumer_types'] if row.present is True}
    conf = ctx.data.get('conf', {})
    want_p = shape.project if shape.project is not None else \
        conf.get('incomplete_consumer_project_id',
                 '00000000-0000-0000-0000-000000000000')
    want_u = shape.user if shape.user is not None else \
        conf.get('incomplete_consumer_user_id',
                 '00000000-0000-0000-0000-000000000000')
    dflt_p, dflt_u = want_p, want_u
    for n in shape.consumers:
        rows = cons.get((CONS(n),), [])
        pres = _pres(rows)
        if pres is False:
            continue
        ev = symdb.Evaluator(None)
        want_p, want_u = dflt_p, dflt_u
        want_t = shape.ctype
        if n in getattr(shape, 'attrs', {}):
            want_p, want_u, want_t = shape.attrs[n]
        for col, want, pool in (('project_id', want_p, proj),
                                ('user_id', want_u, users)):
            if want not in pool:
                obligation(ctx, 'consumer-attributes', _z(pres),
                           '%s %r not recorded' % (col, want))
                continue
            same = ev._same(_merged(rows, col), (False, pool[want]))
            obligation(ctx, 'consumer-attributes',
                       _z(And(pres, Not(same))),
                       'consumer %d does not carry the %s the accepted '
                       'request named' % (n, col))
        if want_t is not None:
            same = ev._same(_merged(rows, 'consumer_type_id'),
                            (False, ctypes.get(want_t, -1)))
            obligation(ctx, 'consumer-attributes',
                       _z(And(pres, Not(same))),
                       'consumer %d does not carry the consumer type the '
                       'accepted request named' % n)


def attributes_only_by_success(ctx, shape, w, pre, post, r):
    """C12: a consumer's project, user and type change only through a
    *successful* write"""
    if r.status >= 400 and shape.kind in ('alloc', 'reshape', 'alloc-delete'):
        obligation(ctx, 'attributes-change-only-on-success',
                   _z(rel_diff(pre, post, ('consumers',))),
                   'status %d but consumer records (project, user, type, '
                   'generation) differ' % r.status,
                   sig='%s:%d' % (shape.kind, r.status))


def recreatable(ctx, shape, w, pre, post, r):
    """C12, last sentence: a consumer that holds nothing after the request
    (removed, or its first write rejected) can be created again by a write
    carrying consumer_generation null; one that holds allocations cannot.
    Issues the follow-up write, so it must be the last assertion."""
    if shape.kind not in ('alloc', 'alloc-delete', 'reshape'):
        return
    from engine import app
    allocs = {}
    for a in post['allocations']:
        allocs.setdefault(a.vals['consumer_id'], []).append(a)
    for n in shape.consumers[:1]:
        has_alloc = _pres(allocs.get(CONS(n), []))
        body = {'allocations': {U(1): {'resources': {'VCPU': 1}}},
                'project_id': 'proj', 'user_id': 'user',
                'consumer_generation': None}
        again = app.call('PUT', '/allocations/' + CONS(n), body,
                         version='1.36')
        detail = (again.error_detail or '').lower()
        if again.status == 409 and 'consumer generation' in detail:
            obligation(ctx, 'creatable-when-it-holds-nothing',
                       _z(Not(has_alloc)),
                       'after status %d consumer %d holds no allocations but '
                       'a write with consumer_generation null is refused: %s'
                       % (r.status, n, detail[:100]),
                       sig='%s:%d' % (shape.kind, r.status))
        elif again.status == 204:
            obligation(ctx, 'null-generation-only-for-new-consumers',
                       _z(has_alloc),
                       'after status %d consumer %d holds allocations but a '
                       'write with consumer_generation null is accepted'
                       % (r.status, n), sig='%s:%d' % (shape.kind, r.status))
        elif again.status >= 500:
            runner.violation(ctx, 'no-5xx', 'follow-up write: %d'
                             % again.status)
