"""C06 — consumer generations prevent lost updates of a consumer's
allocations (DESIGN 5/C06).  Interleavings are explorer decisions at
transaction granularity; generations and amounts are symbolic."""
import sys
import z3

from engine import app, runner, symex
from engine.runner import Family, obligation, finish
from engine.scenario import World, U, CONS
from engine.symdb import And, Or, Not, zbool
from engine.symex import to_z3, Sym
from checks import conc, corpus, asserts
from checks.conc import Req

FUNCTIONS = corpus.ALLOC_FUNCS + [
    'placement.handlers.util.ensure_consumer/_create_consumer (creation '
    'race)', 'oslo_db enginefacade transaction scopes (real)']


def world_fn(existing):
    def build(ctx):
        w = World(ctx)
        w.rc('VCPU')
        w.project('proj')
        w.user('user')
        w.project('proj2')
        w.consumer_type('INSTANCE')
        w.consumer_type('MIGRATION')
        w.provider(1, generation=0)
        w.provider(2, generation=0)
        for p in (1, 2):
            w.inventory(p, 'VCPU', present=True, total=ctx.int('total', 1),
                        reserved=0, min_unit=1, max_unit=ctx.int('max', 1),
                        step_size=1, allocation_ratio=1.0)
        if existing:
            w.allocation(1, 1, 'VCPU', present=True, used=ctx.int('used', 1))
            w.consumer(1, present=True, generation=ctx.int('cgen', 0))
        return w
    return build


def cgen_of(ctx, name, mode):
    """supplied consumer_generation: 'null', or symbolic integer"""
    if mode == 'null':
        return None
    if mode == 'either':
        return corpus.cgen_value(ctx, name)
    return ctx.int(name)


def put(n, target, mode, version='1.36', project='proj', user='user',
        ctype=None):
    name = 'put%d' % n if project == 'proj' and user == 'user' else \
        'put%d(%s,%s)' % (n, project, user)
    if ctype:
        name += '[%s]' % ctype

    def fn(ctx, w):
        body = {'allocations': {U(target): {'resources': {
            'VCPU': ctx.int('amt%d' % n, 1)}}},
            'project_id': project, 'user_id': user,
            'consumer_generation': cgen_of(ctx, 'g%d' % n, mode)}
        if ctype:
            body['consumer_type'] = ctype
        return app.call('PUT', '/allocations/' + CONS(1), body,
                        version=version)
    return Req(name, fn, consumer=1, cgen=('g%d' % n, mode), kind='put')


def put_empty(n, mode, version='1.36'):
    """PUT with empty allocations: remove everything the consumer holds"""
    def fn(ctx, w):
        body = {'allocations': {}, 'project_id': 'proj', 'user_id': 'user',
                'consumer_generation': cgen_of(ctx, 'g%d' % n, mode)}
        return app.call('PUT', '/allocations/' + CONS(1), body,
                        version=version)
    return Req('put_empty%d' % n, fn, consumer=1, cgen=('g%d' % n, mode),
               kind='put')


def post_empty(n, mode, version='1.36'):
    def fn(ctx, w):
        body = {CONS(1): {'allocations': {}, 'project_id': 'proj',
                          'user_id': 'user',
                          'consumer_generation': cgen_of(ctx, 'g%d' % n,
                                                         mode)}}
        return app.call('POST', '/allocations', body, version=version)
    return Req('post_empty%d' % n, fn, consumer=1, cgen=('g%d' % n, mode),
               kind='post')


def delete(n, version='1.36'):
    def fn(ctx, w):
        return app.call('DELETE', '/allocations/' + CONS(1), version=version)
    return Req('delete%d' % n, fn, consumer=1, cgen=None, kind='delete')


def post(n, target, mode, version='1.36'):
    def fn(ctx, w):
        body = {CONS(1): {'allocations': {U(target): {'resources': {
            'VCPU': ctx.int('amt%d' % n, 1)}}},
            'project_id': 'proj', 'user_id': 'user',
            'consumer_generation': cgen_of(ctx, 'g%d' % n, mode)}}
        return app.call('POST', '/allocations', body, version=version)
    return Req('post%d' % n, fn, consumer=1, cgen=('g%d' % n, mode),
               kind='post')


def reshape(n, mode, version='1.36'):
    def fn(ctx, w):
        body = {'inventories': {U(2): {
            'resource_provider_generation': 0,
            'inventories': {'VCPU': {'total': ctx.int('rs_total', 1)}}}},
            'allocations': {CONS(1): {
                'allocations': {U(2): {'resources': {
                    'VCPU': ctx.int('amt%d' % n, 1)}}},
                'project_id': 'proj', 'user_id': 'user',
                'consumer_generation': cgen_of(ctx, 'g%d' % n, mode)}}}
        return app.call('POST', '/reshaper', body, version=version,
                        roles='admin,service')
    return Req('reshape%d' % n, fn, consumer=1, cgen=('g%d' % n, mode),
               kind='reshape')


def supplied(ctx, req):
    """(is_null, value) of the generation the request carried on this path"""
    if req.cgen is None:
        return None, None
    name, mode = req.cgen
    if mode == 'null':
        return True, None
    if mode == 'either':
        v = ctx.vars.get(name + '_null')
        isnull = ctx.values.get(name + '_null') if getattr(
            ctx, 'concrete', False) else None
        # the fork already fixed it on this path: ask the solver
        if getattr(ctx, 'concrete', False):
            return bool(isnull), ctx.values.get(name)
        if ctx.check(v) == 'unsat':
            return False, ctx.vars[name]
        return True, None
    if getattr(ctx, 'concrete', False):
        return False, ctx.values.get(name, 0)
    return False, ctx.vars[name]


def make_family(name, existing, reqs, fault_kinds=None, alias=None):
    wf = world_fn(existing)

    def path(ctx):
        from engine import scenario
        scenario.CONS_ALIAS.clear()
        scenario.CONS_ALIAS.update(alias or {})
        try:
            return path_(ctx)
        finally:
            scenario.CONS_ALIAS.clear()

    def path_(ctx):
        app.setup()
        pre, results, final, sched, writes = conc.run_concurrent(
            ctx, wf, reqs, fault_kinds=fault_kinds)
        ok = [i for i, r in enumerate(results) if r.status < 400]
        sup = {i: supplied(ctx, reqs[i]) for i in range(len(reqs))}
        # (a) among writes carrying the same generation at most one succeeds
        for a in ok:
            for b in ok:
                if a < b and sup[a][0] is not None and \
                        sup[b][0] is not None:
                    (na, va), (nb, vb) = sup[a], sup[b]
                    if na and nb:
                        same = True
                    elif na or nb:
                        same = False
                    else:
                        same = to_z3(va) == to_z3(vb)
                    obligation(ctx, 'same-generation-one-winner',
                               zbool(same) if not isinstance(same, bool)
                               else z3.BoolVal(same),
                               '%s and %s both succeeded carrying the same '
                               'consumer generation' % (reqs[a].name,
                                                        reqs[b].name),
                               sig='%s+%s' % (reqs[a].name, reqs[b].name))
        # (b) a successful write carried the generation committed when its
        # write transaction started (null <=> the consumer did not exist)
        for i in ok:
            ws = [x for x in writes[i] if 'allocations' in x['tables']]
            if not ws:
                continue
            pres, gen = ws[-1]['cons']
            isnull, val = sup[i]
            if isnull is None:
                continue
            if isnull:
                # null: the consumer must not have existed; this request
                # created it itself (observed absent when its creating
                # transaction started) and nobody wrote it since
                mine = [x for x in writes[i] if 'consumers' in x['tables'] and
                        x is not ws[-1]]
                created_here = Or(*[Not(x['cons'][0]) for x in mine]) \
                    if mine else False
                untouched = And(pres, to_z3(gen) == 0) if gen is not None \
                    else False
                bad = Not(Or(Not(pres), And(created_here, untouched)))
            else:
                bad = Or(Not(pres), to_z3(val) != to_z3(gen)
                         if gen is not None else True)
            obligation(ctx, 'success-carried-current-generation', zbool(bad),
                       '%s succeeded although the generation it carried was '
                       'not the consumer\'s when its write began' %
                       reqs[i].name, sig=reqs[i].name)
        # (c) rejected with 409 placement.concurrent_update, and no effect
        # a fault at COMMIT is not retried by the unchanged service: the
        # request it struck may answer 500 (C17 judges that answer)
        excused = len(sched.faults.injected) if fault_kinds and any(
            k.startswith('commit-') for k in fault_kinds) else 0
        for i, r in enumerate(results):
            if r.status >= 500 and excused:
                excused -= 1
                continue
            if r.status >= 500:
                runner.violation(ctx, 'no-5xx', '%s: %d %s' % (
                    reqs[i].name, r.status, (r.error_detail or '')[:200]),
                    sig=reqs[i].name)
        conc.check_serializable(ctx, wf, reqs, results, final)
        # (d) allocation => consumer record, after every schedule
        asserts.no_dangling(ctx, None, None, pre, final, results[0])
        return finish(ctx, ','.join(str(r.status) for r in results),
                      info=dict(points=sched.points, trace=sched.trace))
    return Family(name, path, conformance=not (
        fault_kinds and 'deadlock+rollback' in fault_kinds), bounds=dict(
        requests=[r.name for r in reqs], consumer='existing' if existing
        else 'new', scheduling='every interleaving at transaction '
        'granularity (pre-emption before the first contended access of each '
        'top-level transaction)'))


def families(tier):
    fams = [
        make_family('new/put-null+put-null', False,
                    [put(1, 1, 'null'), put(2, 1, 'null')]),
        make_family('existing/put+put', True,
                    [put(1, 1, 'int'), put(2, 2, 'int')]),
        make_family('existing/put_empty+put', True,
                    [put_empty(1, 'int'), put(2, 2, 'int')]),
        make_family('existing/put(newproj)+put', True,
                    [put(1, 1, 'int', project='proj2'), put(2, 2, 'int')]),
        # a deadlock (the database rolls the transaction back) at a
        # statement of one writer, retried, while the other writer commits
        make_family('existing/put+put/deadlock+rollback', True,
                    [put(1, 1, 'int'), put(2, 2, 'int')],
                    fault_kinds=('deadlock+rollback',)),
        # the COMMIT of one writer's transaction fails (reported as a
        # deadlock, e.g. a certification failure): whatever is retried, the
        # generation the request carried is what must be compared
        make_family('existing/post+put/commit-deadlock', True,
                    [post(1, 1, 'int'), put(2, 2, 'int')],
                    fault_kinds=('commit-deadlock',)),
        make_family('existing/put+put/commit-deadlock', True,
                    [put(1, 1, 'int'), put(2, 2, 'int')],
                    fault_kinds=('commit-deadlock',)),
        # 1.38: creators / writers that name different consumer types (the
        # loser's type must not stick)
        make_family('new/put-null[INSTANCE]+put-null[MIGRATION]@1.38', False,
                    [put(1, 1, 'null', version='1.38', ctype='INSTANCE'),
                     put(2, 1, 'null', version='1.38', ctype='MIGRATION')]),
        # identifier spaces are independent: the consumer carries the uuid
        # of the provider it allocates from
        make_family('existing/put+put/consumer-uuid=provider-uuid', True,
                    [put(1, 1, 'int'), put(2, 1, 'int')],
                    alias={1: U(1)}),
    ]
    # sequential: after a write over several consumers (new, emptied, both)
    # a following write with consumer_generation null is accepted exactly
    # for the consumers that hold nothing
    from checks import asserts
    fams += [corpus.make_family(sh, [asserts.recreatable], prefix='seq/')
             for sh in corpus.shapes(tier)
             if sh.name in ('alloc-post-new+new-empty', 'alloc-post-clear+new',
                            'alloc-post-2c', 'reshape-move')]
    if tier == 'thorough':
        fams += [
            make_family('new/put-null+put-null/consumer-uuid=provider-uuid',
                        False, [put(1, 1, 'null'), put(2, 1, 'null')],
                        alias={1: U(1)}),
            make_family('existing/put+post/consumer-uuid=provider-uuid',
                        True, [put(1, 1, 'int'), post(2, 1, 'int')],
                        alias={1: U(1)}),
            make_family('existing/put[INSTANCE]+put[MIGRATION]@1.38', True,
                        [put(1, 1, 'int', version='1.38', ctype='INSTANCE'),
                         put(2, 2, 'int', version='1.38',
                             ctype='MIGRATION')]),
            make_family('new/put-null[MIGRATION]@1.38+put-null@1.36', False,
                        [put(1, 1, 'null', version='1.38',
                             ctype='MIGRATION'), put(2, 1, 'null')]),
            make_family('existing/post_empty+put', True,
                        [post_empty(1, 'int'), put(2, 2, 'int')]),
            make_family('existing/put_empty+put_empty', True,
                        [put_empty(1, 'int'), put_empty(2, 'int')]),
            # NOTE: DELETE /allocations/{c} racing a PUT was tried: the
            # DELETE can answer 204 having deleted nothing (it deletes the
            # allocation ids it read before the PUT replaced them).  DELETE
            # carries no generation and is not in C06's quantifier (PUT,
            # POST, reshaper), so the family is not part of this check
            # (DESIGN 11.9).
            make_family('new/put-null+put-int', False,
                        [put(1, 1, 'null'), put(2, 1, 'int')]),
            make_family('new/put-null+post-null', False,
                        [put(1, 1, 'null'), post(2, 2, 'null')]),
            make_family('existing/put+post', True,
                        [put(1, 1, 'int'), post(2, 2, 'int')]),
            make_family('existing/put+reshape', True,
                        [put(1, 1, 'int'), reshape(2, 'int')]),
            make_family('new/post-null+reshape-null', False,
                        [post(1, 1, 'null'), reshape(2, 'null')]),
            make_family('existing/put-either+put-either', True,
                        [put(1, 1, 'either'), put(2, 2, 'either')]),
            # three racing creators: ~35 000 interleavings x data paths do
            # not finish in the thorough budget; three-request schedules for
            # consumer generations are outside the claim (C05/C07 have
            # three-request families)
        ]
    return fams


if __name__ == '__main__':
    sys.exit(runner.run_check(
        'C06', families, functions=FUNCTIONS,
        assumptions=['each transaction atomic and isolated (serializable '
                     'DBMS), pre-emption only between transactions',
                     'interleavings are enumerated as paths; within each the '
                     'solver covers all generations and amounts'],
        quick_budget=420, thorough_budget=2400))
