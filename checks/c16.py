"""C16 — every operation is authenticated and authorised before it has any
effect (DESIGN 5/C16).

Caller credentials are symbolic bits (token present, admin, service, reader,
member, same project); the roles header is assembled by forking on them and
the real oslo.policy enforcer evaluates the real rule defaults.  The route
table and the rule list are finite and enumerated (explorer decisions).
"""
import copy
import sys
import z3

from engine import app, runner, symex
from engine.runner import Family, obligation, finish
from engine.scenario import U, AGG, CONS, rel_diff, CORE_TABLES
from engine.symdb import zbool
from checks import c14

from placement import handler, policy, policies
from oslo_policy import policy as opolicy

FUNCTIONS = [
    'placement.auth.NoAuthMiddleware/PlacementKeystoneContext',
    'placement.context.RequestContext.can', 'placement.policy.authorize',
    'placement.policies.* (real rule defaults, real oslo.policy enforcer)',
    'every handler in placement.handlers.* up to its policy check',
]
T1 = c14.T1

BODIES = {
    ('/resource_classes', 'POST'): {'name': 'CUSTOM_NEW'},
    ('/resource_providers', 'POST'): {'name': 'new', 'uuid': U(9)},
    ('/resource_providers/{uuid}', 'PUT'): {'name': 'renamed'},
    ('/resource_providers/{uuid}/inventories', 'POST'):
        {'resource_class': 'CUSTOM_FOO', 'total': 4},
    ('/resource_providers/{uuid}/inventories', 'PUT'):
        {'resource_provider_generation': 3,
         'inventories': {'VCPU': {'total': 16}}},
    ('/resource_providers/{uuid}/inventories/{resource_class}', 'PUT'):
        {'resource_provider_generation': 3, 'total': 16},
    ('/resource_providers/{uuid}/aggregates', 'PUT'):
        {'resource_provider_generation': 3, 'aggregates': [AGG(2)]},
    ('/resource_providers/{uuid}/traits', 'PUT'):
        {'resource_provider_generation': 3, 'traits': ['CUSTOM_T2']},
    ('/allocations', 'POST'): {CONS(5): {
        'allocations': {U(1): {'resources': {'VCPU': 1}}},
        'project_id': 'p', 'user_id': 'u', 'consumer_generation': None,
        'consumer_type': 'INSTANCE'}},
    ('/allocations/{consumer_uuid}', 'PUT'): {
        'allocations': {U(1): {'resources': {'VCPU': 2}}},
        'project_id': 'proj', 'user_id': 'user', 'consumer_generation': 1,
        'consumer_type': 'INSTANCE'},
    ('/reshaper', 'POST'): {'inventories': {}, 'allocations': {}},
}
QUERY = {
    ('/allocation_candidates', 'GET'): '?resources=VCPU:1',
    ('/usages', 'GET'): '?project_id=proj',
}
SUBS = {'{uuid}': U(1), '{consumer_uuid}': CONS(1), '{name}': 'CUSTOM_FOO',
        '{resource_class}': 'VCPU'}


def operations():
    ops = []
    for route in sorted(handler.ROUTE_DECLARATIONS):
        for method in ('GET', 'PUT', 'POST', 'DELETE'):
            ops.append((route, method))
    # the same operation on stored state that makes it a no-op: PUT of a
    # trait that already exists (marked by a third element)
    ops.append(('/traits/{name}', 'PUT', 'existing'))
    # the same read with a query string that is not valid UTF-8: rejecting
    # the malformed query (400) is for callers the rule admits, the others
    # are still answered 403
    for route in sorted(handler.ROUTE_DECLARATIONS):
        if 'GET' in handler.ROUTE_DECLARATIONS[route] and route not in (
                '/', ''):
            ops.append((route, 'GET', 'badquery'))
    # the parameter the policy target is taken from, given twice: the
    # project whose data is reported is the one the rule must be about
    ops.append(('/usages', 'GET', 'project-twice-own-first'))
    ops.append(('/usages', 'GET', 'project-twice-own-last'))
    return ops


def url_of(route, method, variant=None):
    if variant == 'existing' and route == '/traits/{name}':
        return '/traits/' + T1
    url = route
    for a, b in SUBS.items():
        url = url.replace(a, b)
    if route == '/traits/{name}':
        url = '/traits/' + T1 if method != 'PUT' else '/traits/CUSTOM_NEW'
    if variant == 'project-twice-own-first':
        return '/usages?project_id=proj&project_id=other'
    if variant == 'project-twice-own-last':
        return '/usages?project_id=other&project_id=proj'
    if variant == 'badquery':
        return url + ('?project_id=%ff' if route == '/usages' else
                      '?name=%ff')
    return (url or '/') + QUERY.get((route, method), '')


def do(route, method, token, roles, version='1.39', variant=None):
    body = BODIES.get((route, method))
    if body is None and method in ('PUT', 'POST'):
        body = {}
    if route == '/traits/{name}' and method == 'PUT':
        body = None
    return app.call(method, url_of(route, method, variant),
                    copy.deepcopy(body), version=version, token=token,
                    roles=roles)


def allowed_formula(route, method, admin, service, reader, same):
    if route == '/reshaper':
        return service
    if route == '/usages' and method == 'GET':
        return z3.Or(admin, service, z3.And(reader, same))
    return z3.Or(admin, service)


def fam_callers(version='1.39'):
    ops = operations()

    def path(ctx):
        app.setup()
        op = ops[symex.choose(len(ops))]
        route, method = op[0], op[1]
        variant = op[2] if len(op) > 2 else None
        if version == 'sym':
            app.sym_minor(ctx)
        has_token = ctx.bool('token')
        admin, service, reader, member, same = (
            ctx.bool(n) for n in ('admin', 'service', 'reader', 'member',
                                  'same_project'))
        tok = roles = None
        if symex.fork(has_token):
            rl = []
            for name, bit in (('admin', admin), ('service', service),
                              ('reader', reader), ('member', member)):
                if symex.fork(bit):
                    rl.append(name)
            roles = ','.join(rl)
            tok = 'someone:' + ('proj' if symex.fork(same) else 'other')
        # reference: what an administrator with the service role gets
        with c14.world(ctx) as w0:
            ref = do(route, method, 'admin:proj', 'admin,service,reader',
                     version, variant)
        with c14.world(ctx) as w:
            pre = w.dump()
            r = do(route, method, tok, roles, version, variant)
            post = w.dump()
        is_root = route in ('/', '')
        declared = method in handler.ROUTE_DECLARATIONS[route]
        if tok is None:
            if not is_root and r.status != 401:
                runner.violation(ctx, 'unauthenticated-401',
                                 '%s %s without token answered %d' % (
                                     method, route, r.status),
                                 sig='%s %s' % (method, route))
            if r.status == 401 or not is_root:
                obligation(ctx, 'no-effect-unauthorised',
                           zbool(rel_diff(pre, post, CORE_TABLES)),
                           'unauthenticated request changed state')
            return finish(ctx, 'anon:%d' % r.status)
        if is_root:
            return finish(ctx, 'root:%d' % r.status)
        allowed = allowed_formula(route, method, zbool(admin), zbool(service),
                                  zbool(reader), zbool(same))
        if variant in ('project-twice-own-first', 'project-twice-own-last'):
            # the project reported on: find it in the administrator's answer
            # (a project with usage and one without answer differently);
            # the reader must be of that project
            reported_other = not (ref.json or {}).get('usages')
            allowed = z3.Or(zbool(admin), zbool(service), z3.And(
                zbool(reader), z3.Not(zbool(same)) if reported_other
                else zbool(same)))
        if variant == 'badquery' and route == '/usages':
            # an undecodable project_id names no project a reader could be
            # "of"
            allowed = z3.Or(zbool(admin), zbool(service))
        universal = ref.status in (404, 405, 406, 415) and \
            r.status == ref.status
        if r.status == 403 or universal:
            obligation(ctx, 'allowed-callers-not-denied', allowed,
                       '%s %s denied (%d) to a caller the documented rule '
                       'admits (roles %s)' % (method, route, r.status, roles),
                       sig='%s %s' % (method, route)) \
                if r.status == 403 else None
            obligation(ctx, 'no-effect-unauthorised',
                       zbool(rel_diff(pre, post, CORE_TABLES)),
                       'denied request changed state')
        else:
            obligation(ctx, 'unauthorised-never-served', z3.Not(allowed),
                       '%s %s answered %d to a caller the documented rule '
                       'does not admit (roles %s, token %s)' % (
                           method, route, r.status, roles, tok),
                       sig='%s %s' % (method, route))
            if r.status != ref.status:
                runner.violation(ctx, 'authorised-same-as-admin',
                                 '%s %s: %d for roles %s but %d for admin' % (
                                     method, route, r.status, roles,
                                     ref.status),
                                 sig='%s %s' % (method, route))
        return finish(ctx, '%d' % r.status)
    return Family('callers' if version != 'sym' else 'callers@sym', path,
                  bounds=dict(
        microversion=('symbolic minor 0..39: every version-specific variant '
                      'of every handler') if version == 'sym' else version,
        operations=len(ops), caller_bits='token, admin, service, reader, '
        'member, same-project (symbolic, 2^6 combinations decided by forks)'))


def documented_rules():
    out = []
    for rl in policies.list_rules():
        opsl = getattr(rl, 'operations', None)
        if opsl:
            out.append((rl.name, [(o['path'], o['method']) for o in opsl]))
    return out


def with_override(name, check_str, fn):
    enf = policy._ENFORCER
    saved = copy.copy(enf.rules)
    try:
        enf.set_rules(opolicy.Rules.from_dict({name: check_str}),
                      overwrite=False, use_conf=False)
        return fn()
    finally:
        policy.reset()
        policy.init(app.CONF, suppress_deprecation_warnings=True,
                    rules=copy.deepcopy(policies.list_rules()))


def fam_overrides(lo, hi):
    rules = documented_rules()[lo:hi]
    ops = [o for o in operations()
           if len(o) == 2 and o[1] in handler.ROUTE_DECLARATIONS[o[0]] and
           o[0] not in ('/', '')]

    def path(ctx):
        app.setup()
        name, covered = rules[symex.choose(len(rules))]
        mode = symex.choose(2)      # 0: deny all ('!'), 1: allow all ('@')
        route, method = ops[symex.choose(len(ops))]
        in_rule = (route, method) in covered
        with c14.world(ctx) as w0:
            base_admin = do(route, method, 'admin:proj',
                            'admin,service,reader')
        if mode == 0:
            def run():
                with c14.world(ctx) as w:
                    return do(route, method, 'admin:proj',
                              'admin,service,reader')
            r = with_override(name, '!', run)
            if in_rule and r.status != 403 and base_admin.status < 400:
                runner.violation(ctx, 'override-denies-its-operation',
                                 'rule %s set to ! but %s %s answered %d' % (
                                     name, method, route, r.status),
                                 sig=name)
            if not in_rule and r.status != base_admin.status:
                runner.violation(ctx, 'override-touches-only-its-operation',
                                 'rule %s set to ! changed %s %s from %d to '
                                 '%d' % (name, method, route,
                                         base_admin.status, r.status),
                                 sig=name)
        else:
            def run():
                with c14.world(ctx) as w:
                    return do(route, method, 'nobody:other', '')
            r = with_override(name, '@', run)
            if in_rule and r.status != base_admin.status:
                runner.violation(ctx, 'override-grants-its-operation',
                                 'rule %s set to @ but %s %s answered %d '
                                 '(admin: %d)' % (name, method, route,
                                                  r.status,
                                                  base_admin.status),
                                 sig=name)
            if not in_rule and r.status != 403 and \
                    not (base_admin.status in (404, 405, 406, 415) and
                         r.status == base_admin.status):
                runner.violation(ctx, 'override-touches-only-its-operation',
                                 'rule %s set to @ lets %s %s through (%d)' %
                                 (name, method, route, r.status), sig=name)
        ctx.data['obligations'] = ctx.data.get('obligations', 0) + 1
        ctx.data['discharged'] = ctx.data.get('discharged', 0) + \
            (0 if ctx.data.get('violations') else 1)
        return finish(ctx, 'override')
    return Family('overrides-%d-%d' % (lo, hi), path, bounds=dict(
        rules=[r[0] for r in rules], operations=len(ops),
        note='finite rule x operation table, enumerated'))


def fam_policy_file():
    """overrides that come from the operator's policy file and change while
    the process runs: an override applies while it is in the file and stops
    applying when it is removed from it (oslo.policy re-reads the file when
    its modification time changes)"""
    import os
    import tempfile
    import time
    picks = [('placement:resource_providers:list',
              ('/resource_providers', 'GET')),
             ('placement:usages', ('/usages', 'GET')),
             ('placement:reshaper:reshape', ('/reshaper', 'POST')),
             ('placement:allocations:update',
              ('/allocations/{consumer_uuid}', 'PUT'))]

    def path(ctx):
        app.setup()
        name, (route, method) = picks[symex.choose(len(picks))]
        mode = symex.choose(2)      # 0: '!' in the file, 1: '@' in the file
        with c14.world(ctx) as w0:
            base_admin = do(route, method, 'admin:proj',
                            'admin,service,reader')
        with c14.world(ctx) as w0:
            base_nobody = do(route, method, 'nobody:other', '')
        fd, fn = tempfile.mkstemp(suffix='.yaml', prefix='verif-policy-')
        os.close(fd)
        old = app.CONF.oslo_policy.policy_file

        def write(text, age):
            with open(fn, 'w') as f:
                f.write(text)
            t = time.time() + age
            os.utime(fn, (t, t))
        try:
            write('"%s": "%s"\n' % (name, '!' if mode == 0 else '@'), 0)
            app.set_conf('oslo_policy', policy_file=fn)
            policy.reset()
            policy.init(app.CONF, suppress_deprecation_warnings=True)
            who = ('admin:proj', 'admin,service,reader') if mode == 0 else \
                ('nobody:other', '')
            with c14.world(ctx) as w:
                r1 = do(route, method, *who)
            if mode == 0 and base_admin.status < 400 and r1.status != 403:
                runner.violation(ctx, 'override-denies-its-operation',
                                 'policy file sets %s to ! but %s %s answered '
                                 '%d' % (name, method, route, r1.status),
                                 sig='file:' + name)
            if mode == 1 and r1.status != base_admin.status:
                runner.violation(ctx, 'override-grants-its-operation',
                                 'policy file sets %s to @ but %s %s answered '
                                 '%d (admin: %d)' % (name, method, route,
                                                     r1.status,
                                                     base_admin.status),
                                 sig='file:' + name)
            # the operator removes the override again
            write('{}\n', 5)
            with c14.world(ctx) as w:
                r2 = do(route, method, *who)
            want = base_admin.status if mode == 0 else base_nobody.status
            if r2.status != want:
                runner.violation(
                    ctx, 'removed-override-stops-applying',
                    'override of %s removed from the policy file but %s %s '
                    'still answers %d (default behaviour: %d)' % (
                        name, method, route, r2.status, want),
                    sig='file-removed:' + name)
        finally:
            app.set_conf('oslo_policy', policy_file=old)
            policy.reset()
            policy.init(app.CONF, suppress_deprecation_warnings=True,
                        rules=copy.deepcopy(policies.list_rules()))
            try:
                os.unlink(fn)
            except OSError:
                pass
        ctx.data['obligations'] = ctx.data.get('obligations', 0) + 2
        ctx.data['discharged'] = ctx.data.get('discharged', 0) + 2 - \
            len(ctx.data.get('violations', []))
        return finish(ctx, 'policy-file')
    return Family('policy-file-reload', path, conformance=False, bounds=dict(
        rules=[p_[0] for p_ in picks], modes=['!', '@'],
        sequence='override present in the file, then removed from it, '
        'within one process'))


def families(tier):
    n = len(documented_rules())
    fams = [fam_callers(), fam_callers('sym'), fam_policy_file()]
    if tier == 'quick':
        fams.append(fam_overrides(0, 6))
        fams.append(fam_overrides(n - 4, n))
    else:
        fams += [fam_overrides(i, min(n, i + 8)) for i in range(0, n, 8)]
    return fams


if __name__ == '__main__':
    sys.exit(runner.run_check(
        'C16', families, functions=FUNCTIONS,
        assumptions=['noauth2 middleware stands in for keystonemiddleware '
                     '(token -> user:project, roles from X-Roles)',
                     'oslo.policy as installed (enforce_new_defaults as '
                     'configured by default)',
                     'route and rule tables are enumerated; the solver '
                     'quantifies over the credential bits']))
