"""C14 — each microversion exposes exactly its documented surface
(DESIGN 5/C14, Appendix C).

The requested minor version is a symbolic integer in [0, 39] handed to the
application in place of the parsed header (engine/app.py); each feature of
rest_api_version_history.rst has a probing request and an observable; on
every path z3 proves observable present <=> lo <= minor < hi.  The header
negotiation itself (strings) is enumerated concretely and labelled so.
"""
import sys
import z3

from engine import app, runner, symex
from engine.runner import Family, obligation, finish
from engine.scenario import World, U, AGG, CONS
from engine.symex import to_z3

FUNCTIONS = [
    'placement.handler.PlacementHandler / dispatch / ROUTE_DECLARATIONS',
    'placement.microversion.version_handler/_find_method',
    'every handler in placement.handlers.* (version branches)',
    'placement.util.json_error_formatter', 'placement.lib (query parsing)',
]
T1 = 'CUSTOM_T1'


def world(ctx):
    w = World(ctx)
    for rc in ('VCPU', 'DISK_GB'):
        w.rc(rc)
    w.rc('CUSTOM_FOO', 10000)
    for t in ('MISC_SHARES_VIA_AGGREGATE', T1, 'CUSTOM_T2'):
        w.trait(t)
    w.agg(1)
    w.project('proj')
    w.user('user')
    w.consumer_type('INSTANCE')
    w.provider(1, generation=3)
    w.provider(2, parent=1, generation=0)
    w.provider(3, generation=0)
    w.provider(4, parent=1, generation=0)
    inv = dict(total=8, reserved=0, min_unit=1, max_unit=8, step_size=1,
               allocation_ratio=1.0)
    w.inventory(1, 'VCPU', present=True, **inv)
    w.inventory(1, 'DISK_GB', present=True, **inv)
    w.inventory(2, 'VCPU', present=True, **inv)
    w.has_trait(1, T1, present=True)
    w.in_agg(1, 1, present=True)
    w.allocation(1, 1, 'VCPU', present=True, used=1)
    w.consumer(1, present=True, generation=1, ctype=1)
    return w


def ok(r):
    return r.status < 400


def st(*codes):
    return lambda r: r.status in codes


def not_st(*codes):
    return lambda r: r.status not in codes


def has_link(rel):
    return lambda r: r.status == 200 and any(
        l['rel'] == rel for l in r.json.get('links', []))


def jhas(*keys):
    def f(r):
        if r.status != 200 or not isinstance(r.json, dict):
            return False
        d = r.json
        for k in keys:
            if not isinstance(d, dict) or k not in d:
                return False
            d = d[k]
        return True
    return f


RP1 = '/resource_providers/' + U(1)
ALLOC_DICT = {U(1): {'resources': {'VCPU': 1}}}
ALLOC_LIST = [{'resource_provider': {'uuid': U(1)},
               'resources': {'VCPU': 1}}]
INV1 = {'total': 4, 'reserved': 4}


def cand(qs):
    return ('GET', '/allocation_candidates?' + qs, None)


def first_summary(key):
    def f(r):
        if r.status != 200:
            return False
        ps = r.json['provider_summaries']
        return bool(ps) and all(key in v for v in ps.values())
    return f


# (lo, hi, name, request, observable)   hi=None: up to latest
FEATURES = [
    (1, None, 'GET aggregates route', ('GET', RP1 + '/aggregates', None),
     not_st(404)),
    (1, None, 'PUT aggregates route', ('PUT', RP1 + '/aggregates',
                                       {'resource_provider_generation': 3,
                                        'aggregates': [AGG(2)]}),
     not_st(404)),
    (1, None, 'aggregates link', ('GET', RP1, None), has_link('aggregates')),
    (2, None, 'GET /resource_classes', ('GET', '/resource_classes', None),
     st(200)),
    (2, None, 'POST /resource_classes', ('POST', '/resource_classes',
                                         {'name': 'CUSTOM_NEW'}), st(201)),
    (2, None, 'GET /resource_classes/{name}',
     ('GET', '/resource_classes/VCPU', None), st(200)),
    (2, None, 'DELETE /resource_classes/{name}',
     ('DELETE', '/resource_classes/CUSTOM_FOO', None), st(204)),
    (2, 7, 'PUT /resource_classes/{name} renames (body)',
     ('PUT', '/resource_classes/CUSTOM_FOO', {'name': 'CUSTOM_BAR'}),
     st(200)),
    (7, None, 'PUT /resource_classes/{name} creates without body',
     ('PUT', '/resource_classes/CUSTOM_NEW', None), st(201)),
    (3, None, 'member_of on provider listing',
     ('GET', '/resource_providers?member_of=' + AGG(1), None), st(200)),
    (4, None, 'resources on provider listing',
     ('GET', '/resource_providers?resources=VCPU:1', None), st(200)),
    (5, None, 'DELETE all inventories',
     ('DELETE', '/resource_providers/%s/inventories' % U(3), None), st(204)),
    (6, None, 'GET /traits', ('GET', '/traits', None), st(200)),
    (6, None, 'PUT /traits/{name}', ('PUT', '/traits/CUSTOM_NEW', None),
     st(201)),
    (6, None, 'GET provider traits', ('GET', RP1 + '/traits', None), st(200)),
    (6, None, 'traits link', ('GET', RP1, None), has_link('traits')),
    (8, 12, 'PUT allocations (list) with project_id/user_id',
     ('PUT', '/allocations/' + CONS(5),
      {'allocations': ALLOC_LIST, 'project_id': 'p', 'user_id': 'u'}), ok),
    (0, 8, 'PUT allocations (list) without project_id/user_id',
     ('PUT', '/allocations/' + CONS(5), {'allocations': ALLOC_LIST}), ok),
    (9, None, 'GET /usages', ('GET', '/usages?project_id=proj', None),
     st(200)),
    (10, None, 'GET /allocation_candidates', cand('resources=VCPU:1'),
     st(200)),
    (11, None, 'allocations link', ('GET', RP1, None),
     has_link('allocations')),
    (12, 28, 'PUT allocations (dict) without consumer_generation',
     ('PUT', '/allocations/' + CONS(5),
      {'allocations': ALLOC_DICT, 'project_id': 'p', 'user_id': 'u'}), ok),
    (12, None, 'GET allocations shows project_id',
     ('GET', '/allocations/' + CONS(1), None), jhas('project_id')),
    (12, None, 'candidates in dict form', cand('resources=VCPU:1'),
     lambda r: r.status == 200 and r.json['allocation_requests'] and
     isinstance(r.json['allocation_requests'][0]['allocations'], dict)),
    (13, 28, 'POST /allocations (no consumer_generation)',
     ('POST', '/allocations', {CONS(5): {'allocations': ALLOC_DICT,
                                         'project_id': 'p', 'user_id': 'u'}}),
     st(204)),
    (14, None, 'parent/root in provider body', ('GET', RP1, None),
     jhas('root_provider_uuid')),
    (14, None, 'POST provider with parent',
     ('POST', '/resource_providers', {'name': 'new', 'uuid': U(9),
                                      'parent_provider_uuid': U(1)}), ok),
    (14, None, 'in_tree on provider listing',
     ('GET', '/resource_providers?in_tree=' + U(1), None), st(200)),
    (15, None, 'last-modified on GET', ('GET', RP1, None),
     lambda r: 'last-modified' in r.headers and
     r.headers.get('cache-control') == 'no-cache'),
    (15, None, 'last-modified on GET inventories',
     ('GET', RP1 + '/inventories', None),
     lambda r: 'last-modified' in r.headers),
    # ... on every route that returns a document, also when the collection
    # it reports is empty (provider 3 has nothing)
] + [
    (15, None, 'last-modified and cache-control on GET %s' % path,
     ('GET', path, None),
     lambda r: r.status == 200 and 'last-modified' in r.headers and
     r.headers.get('cache-control') == 'no-cache')
    for path in (
        '/resource_providers/' + U(3) + '/inventories',
        '/resource_providers/' + U(3) + '/traits',
        '/resource_providers/' + U(3) + '/aggregates',
        '/resource_providers/' + U(3) + '/usages',
        '/resource_providers/' + U(3) + '/allocations',
        '/resource_providers/' + U(1) + '/allocations',
        '/resource_providers/' + U(1) + '/inventories/VCPU',
        '/allocations/' + CONS(77), '/allocations/' + CONS(1),
        '/resource_providers?name=nope', '/resource_providers',
        '/traits?name=in:CUSTOM_NOPE', '/traits', '/resource_classes',
        '/resource_classes/VCPU', '/usages?project_id=nobody',
        '/usages?project_id=proj',
        '/allocation_candidates?resources=VCPU:9999',
        '/allocation_candidates?resources=VCPU:1')
] + [
    (16, None, 'limit on candidates', cand('resources=VCPU:1&limit=1'),
     st(200)),
    (17, None, 'required on candidates',
     cand('resources=VCPU:1&required=' + T1), st(200)),
    (17, None, 'traits in provider_summaries', cand('resources=VCPU:1'),
     first_summary('traits')),
    (18, None, 'required on provider listing',
     ('GET', '/resource_providers?required=' + T1, None), st(200)),
    (19, None, 'aggregates GET carries generation',
     ('GET', RP1 + '/aggregates', None),
     jhas('resource_provider_generation')),
    (1, 19, 'aggregates PUT takes a list',
     ('PUT', RP1 + '/aggregates', [AGG(2)]), st(200)),
    (19, None, 'aggregates PUT takes an object',
     ('PUT', RP1 + '/aggregates', {'resource_provider_generation': 3,
                                   'aggregates': [AGG(2)]}), st(200)),
    (20, None, 'POST provider answers 200 with body',
     ('POST', '/resource_providers', {'name': 'new', 'uuid': U(9)}),
     st(200)),
    (0, 20, 'POST provider answers 201',
     ('POST', '/resource_providers', {'name': 'new', 'uuid': U(9)}),
     st(201)),
    (21, None, 'member_of on candidates',
     cand('resources=VCPU:1&member_of=' + AGG(1)), st(200)),
    (22, None, 'forbidden trait on listing',
     ('GET', '/resource_providers?required=!' + T1, None), st(200)),
    (22, None, 'forbidden trait on candidates',
     cand('resources=VCPU:1&required=!' + T1), st(200)),
    (23, None, 'code in error body',
     ('GET', '/resource_providers/' + U(99), None),
     lambda r: r.status == 404 and 'code' in r.json['errors'][0]),
    (24, None, 'repeated member_of on listing',
     ('GET', '/resource_providers?member_of=%s&member_of=%s'
      % (AGG(1), AGG(1)), None), st(200)),
    (25, None, 'numbered request groups',
     cand('resources1=VCPU:1'), st(200)),
    (26, None, 'reserved == total accepted',
     ('PUT', RP1 + '/inventories/DISK_GB',
      dict(INV1, resource_provider_generation=3)), st(200)),
    # granular requests (1.25): the summaries cover the classes of every
    # request group, in whichever order the groups are written
    (25, None, 'summaries list the classes of all request groups',
     cand('resources=VCPU:1&resources1=DISK_GB:1'),
     lambda r: r.status == 200 and {'VCPU', 'DISK_GB'} <= set(
         r.json['provider_summaries'].get(U(1), {}).get('resources', {}))),
    (25, None, 'summaries list the classes of all request groups (reversed)',
     cand('resources1=VCPU:1&resources=DISK_GB:1'),
     lambda r: r.status == 200 and {'VCPU', 'DISK_GB'} <= set(
         r.json['provider_summaries'].get(U(1), {}).get('resources', {}))),
    (27, None, 'provider_summaries list every class',
     cand('resources=VCPU:1'),
     lambda r: r.status == 200 and 'DISK_GB' in
     r.json['provider_summaries'].get(U(1), {}).get('resources', {})),
    (28, 38, 'PUT allocations with consumer_generation',
     ('PUT', '/allocations/' + CONS(5),
      {'allocations': ALLOC_DICT, 'project_id': 'p', 'user_id': 'u',
       'consumer_generation': None}), ok),
    (28, None, 'GET allocations shows consumer_generation',
     ('GET', '/allocations/' + CONS(1), None), jhas('consumer_generation')),
    (28, None, 'provider allocations show consumer_generation',
     ('GET', RP1 + '/allocations', None),
     lambda r: r.status == 200 and all(
         'consumer_generation' in v
         for v in r.json['allocations'].values())),
    (28, 38, 'empty allocations accepted by PUT',
     ('PUT', '/allocations/' + CONS(1),
      {'allocations': {}, 'project_id': 'proj', 'user_id': 'user',
       'consumer_generation': 1}), ok),
    (29, None, 'candidates span providers of a tree',
     cand('resources=VCPU:8,DISK_GB:1'),
     lambda r: r.status == 200 and len(r.json['allocation_requests']) > 0),
    (29, None, 'parent/root in provider_summaries', cand('resources=VCPU:1'),
     first_summary('root_provider_uuid')),
    (30, None, 'POST /reshaper',
     ('POST', '/reshaper', {'inventories': {}, 'allocations': {}}),
     not_st(404)),
    (31, None, 'in_tree on candidates',
     cand('resources=VCPU:1&in_tree=' + U(1)), st(200)),
    (32, None, 'forbidden aggregate on listing',
     ('GET', '/resource_providers?member_of=!' + AGG(1), None), st(200)),
    (32, None, 'forbidden aggregate on candidates',
     cand('resources=VCPU:1&member_of=!' + AGG(1)), st(200)),
    # a value syntax with its own version inside a parameter that may be
    # repeated: every position of the repetition
    (32, None, 'forbidden aggregate, first of two member_of (listing)',
     ('GET', '/resource_providers?member_of=!%s&member_of=%s'
      % (AGG(1), AGG(2)), None), st(200)),
    (32, None, 'forbidden aggregate, last of two member_of (listing)',
     ('GET', '/resource_providers?member_of=%s&member_of=!%s'
      % (AGG(2), AGG(1)), None), st(200)),
    (32, None, 'forbidden in: list, first of two member_of (listing)',
     ('GET', '/resource_providers?member_of=!in:%s,%s&member_of=%s'
      % (AGG(1), AGG(2), AGG(2)), None), st(200)),
    (32, None, 'forbidden aggregate, first of two member_of (candidates)',
     cand('resources=VCPU:1&member_of=!%s&member_of=%s' % (AGG(1), AGG(2))),
     st(200)),
    (32, None, 'forbidden aggregate, last of two member_of (candidates)',
     cand('resources=VCPU:1&member_of=%s&member_of=!%s' % (AGG(2), AGG(1))),
     st(200)),
    (32, None, 'forbidden aggregate, first of two member_of1 (candidates)',
     cand('resources1=VCPU:1&member_of1=!%s&member_of1=%s'
          % (AGG(1), AGG(2))), st(200)),
    (33, None, 'string suffixes',
     cand('resources_FOO=VCPU:1'), st(200)),
    (34, None, 'mappings in allocation_requests', cand('resources=VCPU:1'),
     lambda r: r.status == 200 and r.json['allocation_requests'] and
     'mappings' in r.json['allocation_requests'][0]),
    (34, 38, 'mappings accepted in PUT allocations',
     ('PUT', '/allocations/' + CONS(5),
      {'allocations': ALLOC_DICT, 'project_id': 'p', 'user_id': 'u',
       'consumer_generation': None, 'mappings': {'': [U(1)]}}), ok),
    (34, 38, 'mappings accepted in POST /allocations',
     ('POST', '/allocations', {CONS(5): {
         'allocations': ALLOC_DICT, 'project_id': 'p', 'user_id': 'u',
         'consumer_generation': None, 'mappings': {'': [U(1)]}}}), st(204)),
    (34, 38, 'mappings accepted in POST /reshaper',
     ('POST', '/reshaper', {'inventories': {U(3): {
         'resource_provider_generation': 0, 'inventories': {}}},
         'allocations': {CONS(1): {
             'allocations': {U(1): {'resources': {'VCPU': 1}}},
             'project_id': 'proj', 'user_id': 'user',
             'consumer_generation': 1, 'mappings': {'': [U(1)]}}}}),
     st(204)),
    (38, None, 'mappings + consumer_type accepted in POST /reshaper',
     ('POST', '/reshaper', {'inventories': {U(3): {
         'resource_provider_generation': 0, 'inventories': {}}},
         'allocations': {CONS(1): {
             'allocations': {U(1): {'resources': {'VCPU': 1}}},
             'project_id': 'proj', 'user_id': 'user',
             'consumer_generation': 1, 'consumer_type': 'INSTANCE',
             'mappings': {'': [U(1)]}}}}), st(204)),
    (38, None, 'consumer_type accepted in POST /allocations',
     ('POST', '/allocations', {CONS(5): {
         'allocations': ALLOC_DICT, 'project_id': 'p', 'user_id': 'u',
         'consumer_generation': None, 'consumer_type': 'INSTANCE'}}),
     st(204)),
    (38, None, 'consumer_type accepted in POST /reshaper',
     ('POST', '/reshaper', {'inventories': {U(3): {
         'resource_provider_generation': 0, 'inventories': {}}},
         'allocations': {CONS(1): {
             'allocations': {U(1): {'resources': {'VCPU': 1}}},
             'project_id': 'proj', 'user_id': 'user',
             'consumer_generation': 1, 'consumer_type': 'INSTANCE'}}}),
     st(204)),
    (28, 38, 'consumer_generation accepted in POST /allocations',
     ('POST', '/allocations', {CONS(5): {
         'allocations': ALLOC_DICT, 'project_id': 'p', 'user_id': 'u',
         'consumer_generation': None}}), st(204)),
    (30, 38, 'POST /reshaper without consumer_type',
     ('POST', '/reshaper', {'inventories': {U(3): {
         'resource_provider_generation': 0, 'inventories': {}}},
         'allocations': {CONS(1): {
             'allocations': {U(1): {'resources': {'VCPU': 1}}},
             'project_id': 'proj', 'user_id': 'user',
             'consumer_generation': 1}}}), st(204)),
    (35, None, 'root_required',
     cand('resources=VCPU:1&root_required=' + T1), st(200)),
    (36, None, 'same_subtree',
     cand('resources_A=VCPU:1&resources_B=VCPU:1&group_policy=none'
          '&same_subtree=_A,_B'), st(200)),
    (36, None, 'resourceless request group',
     cand('resources_A=VCPU:1&required_X=%s&same_subtree=_A,_X'
          '&group_policy=none' % T1), st(200)),
    # request groups without resources exist only from 1.36 and only when
    # named in same_subtree: on their own they are never accepted
    (40, None, 'resourceless group with only a forbidden trait',
     cand('resources=VCPU:1&required1=!CUSTOM_T2'), st(200)),
    (40, None, 'resourceless group with only in_tree',
     cand('resources=VCPU:1&in_tree1=' + U(1)), st(200)),
    (40, None, 'resourceless group with only member_of',
     cand('resources=VCPU:1&member_of1=' + AGG(1)), st(200)),
    (40, None, 'resourceless group with only a required trait',
     cand('resources=VCPU:1&required1=' + T1), st(200)),
    (37, None, 're-parenting via PUT',
     ('PUT', '/resource_providers/' + U(2),
      {'name': 'p2', 'parent_provider_uuid': U(3)}), st(200)),
    (37, None, 're-parenting within the same tree via PUT',
     ('PUT', '/resource_providers/' + U(2),
      {'name': 'p2', 'parent_provider_uuid': U(4)}), st(200)),
    (37, None, 'un-parenting via PUT',
     ('PUT', '/resource_providers/' + U(2),
      {'name': 'p2', 'parent_provider_uuid': None}), st(200)),
    (14, None, 'first parenting of a root via PUT',
     ('PUT', '/resource_providers/' + U(3),
      {'name': 'p3', 'parent_provider_uuid': U(1)}), st(200)),
    (38, None, 'consumer_type in PUT allocations',
     ('PUT', '/allocations/' + CONS(5),
      {'allocations': ALLOC_DICT, 'project_id': 'p', 'user_id': 'u',
       'consumer_generation': None, 'consumer_type': 'INSTANCE'}), ok),
    (38, None, 'GET allocations shows consumer_type',
     ('GET', '/allocations/' + CONS(1), None), jhas('consumer_type')),
    (38, None, 'usages grouped by consumer type',
     ('GET', '/usages?project_id=proj', None),
     lambda r: r.status == 200 and bool(r.json['usages']) and all(
         isinstance(v, dict) and 'consumer_count' in v
         for v in r.json['usages'].values())),
    (38, None, 'consumer_type filter on usages',
     ('GET', '/usages?project_id=proj&consumer_type=INSTANCE', None),
     st(200)),
    (39, None, 'any-of traits on listing',
     ('GET', '/resource_providers?required=in:%s,CUSTOM_T2' % T1, None),
     st(200)),
    (39, None, 'any-of traits on candidates',
     cand('resources=VCPU:1&required=in:%s,CUSTOM_T2' % T1), st(200)),
]


def fam_features(lo_i, hi_i):
    feats = FEATURES[lo_i:hi_i]

    def path(ctx):
        app.setup()
        k = symex.choose(len(feats))
        lo, hi, name, (method, url, body), obs = feats[k]
        minor = app.sym_minor(ctx)
        with world(ctx) as w:
            r = app.call(method, url, body, version='sym',
                         roles='admin,service')
            present = bool(obs(r))
            m = to_z3(minor)
            inside = z3.And(m >= lo, m < (hi if hi is not None else 40))
            if present:
                obligation(ctx, 'feature-boundary', z3.Not(inside),
                           '"%s" is present outside [1.%d, 1.%s)' %
                           (name, lo, hi if hi is not None else '40'),
                           sig=name)
            else:
                obligation(ctx, 'feature-boundary', inside,
                           '"%s" is absent (status %d) inside [1.%d, 1.%s)'
                           % (name, r.status, lo,
                              hi if hi is not None else '40'), sig=name)
            if r.status >= 500:
                runner.violation(ctx, 'no-5xx', '%s: %d' % (name, r.status),
                                 sig=name)
            return finish(ctx, '%s:%s' % (name, present))
    return Family('features-%d-%d' % (lo_i, hi_i), path,
                  bounds=dict(features=[f[2] for f in feats],
                              minor='symbolic 0..39'))


def fam_routes():
    """availability of every declared route x method at a symbolic minor:
    below the version that introduced the route the answer is 404, for a
    method not declared 405; never a 5xx."""
    def path(ctx):
        app.setup()
        from placement import handler
        routes = sorted(handler.ROUTE_DECLARATIONS)
        subs = {'{uuid}': U(1), '{consumer_uuid}': CONS(1), '{name}': 'VCPU',
                '{resource_class}': 'VCPU'}
        methods = ['GET', 'PUT', 'POST', 'DELETE']
        route = routes[symex.choose(len(routes))]
        method = methods[symex.choose(len(methods))]
        url = route
        for a, b in subs.items():
            url = url.replace(a, b)
        url = url.replace('{name}', 'VCPU')
        minor = app.sym_minor(ctx)
        with world(ctx) as w:
            body = {} if method in ('PUT', 'POST') else None
            r = app.call(method, url or '/', body, version='sym',
                         roles='admin,service')
            declared = method in handler.ROUTE_DECLARATIONS[route]
            if not declared and r.status != 405:
                runner.violation(ctx, 'undeclared-method-405',
                                 '%s %s answered %d' % (method, route,
                                                        r.status),
                                 sig='%s %s' % (method, route))
            if r.status >= 500:
                runner.violation(ctx, 'no-5xx', '%s %s answered %d' % (
                    method, route, r.status), sig='%s %s' % (method, route))
            return finish(ctx, '%s %s:%d' % (method, route, r.status))
    return Family('routes', path, bounds=dict(
        routes='all of ROUTE_DECLARATIONS x GET/PUT/POST/DELETE',
        minor='symbolic 0..39'))


def fam_negotiation():
    """header negotiation: finite, enumerated concretely (not a solver
    result; labelled as such in DESIGN 6)"""
    def path(ctx):
        app.setup()
        from placement import microversion
        with world(ctx) as w:
            n = 0
            for m in range(0, 40):
                r = app.call('GET', RP1, version='1.%d' % m)
                n += 1
                if r.status != 200 or r.headers.get(
                        'openstack-api-version') != 'placement 1.%d' % m or \
                        'openstack-api-version' not in \
                        (r.headers.get('vary') or '').lower():
                    runner.violation(ctx, 'version-header',
                                     '1.%d: status %d header %r vary %r' % (
                                         m, r.status, r.headers.get(
                                             'openstack-api-version'),
                                         r.headers.get('vary')),
                                     sig='1.%d' % m)
            for hv, want in (('latest', '1.39'), (None, '1.0')):
                r = app.call('GET', RP1, version=hv)
                n += 1
                if r.headers.get('openstack-api-version') != \
                        'placement ' + want:
                    runner.violation(ctx, 'version-header',
                                     '%s applied %r' % (hv, r.headers.get(
                                         'openstack-api-version')),
                                     sig=str(hv))
            for hv in ('1.40', '2.0', '0.9', '1.100'):
                r = app.call('GET', RP1, version=hv)
                n += 1
                e = (r.json or {}).get('errors', [{}])[0]
                if r.status != 406 or 'max_version' not in e or \
                        'min_version' not in e:
                    runner.violation(ctx, 'out-of-range-406',
                                     '%s: %d %s' % (hv, r.status, e),
                                     sig=hv)
            for hv in ('1', 'abc', '1.x', '1.2.3', '-1.0', ''):
                r = app.call('GET', RP1, headers={
                    'openstack-api-version': 'placement ' + hv},
                    version=None)
                n += 1
                if r.status not in (400, 406) and not (hv == '' and
                                                       r.status == 200):
                    runner.violation(ctx, 'invalid-version-rejected',
                                     '%r: %d' % (hv, r.status), sig=hv)
            ctx.data['obligations'] = ctx.data.get('obligations', 0) + n
            ctx.data['discharged'] = ctx.data.get('discharged', 0) + n - \
                len(ctx.data.get('violations', []))
            return finish(ctx, 'negotiation')
    return Family('negotiation-enumerated', path, bounds=dict(
        headers='1.0..1.39, latest, absent, 4 out-of-range, 6 malformed',
        note='plain enumeration of a finite set'))


def fam_parameter_names():
    """the names of the per-group query parameters of GET
    /allocation_candidates: the language each schema pattern (and the parser's
    own pattern) lets through is included in the documented one - decided by
    z3 on the regular expressions read from the code; a witness outside it is
    sent to the real service, which must refuse it"""
    import urllib.parse
    from engine import rex
    from placement.schemas import allocation_candidate as acs
    from placement import lib as plib

    def spec(prefix, wide):
        R = z3.Re
        if wide:
            ch = z3.Union(z3.Range('a', 'z'), z3.Range('A', 'Z'),
                          z3.Range('0', '9'), R('_'), R('-'))
            suffix = z3.Loop(ch, 1, 64)
        else:
            suffix = z3.Concat(z3.Range('1', '9'),
                               z3.Star(z3.Range('0', '9')))
        return z3.Concat(R(prefix), z3.Option(suffix))

    def path(ctx):
        app.setup()
        cases = []
        for name in sorted(dir(acs)):
            sch = getattr(acs, name)
            if name.startswith('GET_SCHEMA') and isinstance(sch, dict):
                m = tuple(int(x) for x in name.split('_')[2:4])
                for pat in sorted(sch.get('patternProperties', {})):
                    cases.append(('schema %s' % name, pat, m))
        cases.append(('lib._QS_KEY_PATTERN', plib._QS_KEY_PATTERN.pattern,
                      (1, 25)))
        cases.append(('lib._QS_KEY_PATTERN_1_33',
                      plib._QS_KEY_PATTERN_1_33.pattern, (1, 33)))
        prefixes = ('resources', 'required', 'member_of', 'in_tree')
        with world(ctx) as w:
            # the consumer_type filter of GET /usages (1.38): a consumer type
            # name, 'all' or 'unknown'
            from placement.schemas import usage as us
            pat = us.GET_USAGES_SCHEMA_V1_38['properties']['consumer_type'][
                'pattern']
            name = z3.Plus(z3.Union(z3.Range('A', 'Z'), z3.Range('0', '9'),
                                    z3.Re('_')))
            doc = z3.Union(name, z3.Re('all'), z3.Re('unknown'))
            ctx.data['obligations'] = ctx.data.get('obligations', 0) + 1
            r, wit = rex.included(rex.search_language(pat), doc, max_len=40)
            ctx.nq += 1
            if r == 'unsat':
                ctx.data['discharged'] = ctx.data.get('discharged', 0) + 1
            elif r == 'unknown':
                ctx.data.setdefault('violations', []).append(dict(
                    clause='parameter-value-language', kind='unknown',
                    values=None, desc='regex inclusion undecided',
                    sig='consumer_type'))
            else:
                val = rex.unescape(wit)
                resp = app.call(
                    'GET', '/usages?project_id=proj&consumer_type=' +
                    urllib.parse.quote(val, safe=''), version='1.38')
                if resp.status == 200:
                    runner.violation(
                        ctx, 'parameter-value-language',
                        'GET /usages accepts consumer_type=%r (pattern %r), '
                        'which is neither a consumer type name nor all / '
                        'unknown' % (val, pat), sig='consumer_type')
                else:
                    ctx.data['discharged'] = ctx.data.get('discharged', 0) + 1
            for what, pat, m in cases:
                wide = m >= (1, 33)
                doc = z3.Union(*[spec(p_, wide) for p_ in prefixes])
                ctx.data['obligations'] = ctx.data.get('obligations', 0) + 1
                r, wit = rex.included(rex.search_language(pat), doc,
                                      max_len=80)
                ctx.nq += 1
                if r == 'unsat':
                    ctx.data['discharged'] = ctx.data.get('discharged', 0) + 1
                    continue
                if r == 'unknown':
                    ctx.data.setdefault('violations', []).append(dict(
                        clause='parameter-name-language', kind='unknown',
                        values=None, desc='regex inclusion undecided',
                        sig=what))
                    continue
                key = rex.unescape(wit)
                resp = app.call(
                    'GET', '/allocation_candidates?%s=%s&resources=VCPU:1'
                    % (urllib.parse.quote(key, safe=''),
                       'VCPU:1' if key.startswith('resources') else
                       'CUSTOM_T1' if key.startswith('required') else
                       AGG(1) if key.startswith('member_of') else U(1)),
                    version='%d.%d' % m)
                if resp.status == 200:
                    runner.violation(
                        ctx, 'parameter-name-language',
                        '%s (pattern %r) lets the undocumented parameter '
                        'name %r through and the service answers 200 at '
                        '%d.%d' % (what, pat, key, m[0], m[1]),
                        sig=what.split()[0])
                else:
                    # the pattern is wider than documented but another layer
                    # refuses the name
                    ctx.data['discharged'] = ctx.data.get('discharged', 0) + 1
            return finish(ctx, 'names')
    return Family('query-parameter-names', path, conformance=False,
                  bounds=dict(patterns='every patternProperties key of every '
                              'GET_SCHEMA_* of allocation candidates and the '
                              'two parser patterns', max_len=80))


def fam_version_header():
    """every response to a request whose version was accepted - success,
    client error, unrouted path, undeclared method - names exactly the
    version applied, once, also when earlier requests of the same process
    used other versions (sequences of two requests)"""
    kinds = [
        ('GET', RP1), ('GET', '/resource_providers/' + U(99)),
        ('GET', '/nothing/here'), ('GET', '/resource_providers/x/y/z'),
        ('DELETE', '/resource_providers'),
        ('GET', '/resource_providers?bogus=1'),
        ('GET', '/usages?project_id=proj'), ('GET', '/'),
        ('PUT', '/resource_providers/' + U(1)),
    ]
    versions = [(None, '1.0'), ('1.5', '1.5'), ('1.30', '1.30'),
                ('latest', '1.39')]

    def path(ctx):
        app.setup()
        with world(ctx) as w:
            for step in range(2):
                method, url = kinds[symex.choose(len(kinds))]
                hv, want = versions[symex.choose(len(versions))]
                body = {} if method == 'PUT' else None
                r = app.call(method, url, body, version=hv)
                got = r.headers.getall('openstack-api-version')
                what = '%s %s at %s (request %d of the sequence)' % (
                    method, url.split('?')[0], hv, step + 1)
                if got != ['placement ' + want]:
                    runner.violation(
                        ctx, 'version-header', '%s: status %d, '
                        'openstack-api-version values %r, expected exactly '
                        '[placement %s]' % (what, r.status, got, want),
                        sig='%s %s' % (method, url.split('?')[0]))
                vary = ','.join(r.headers.getall('vary')).lower()
                if 'openstack-api-version' not in vary:
                    runner.violation(ctx, 'vary-header', '%s: status %d, '
                                     'Vary %r' % (what, r.status, vary),
                                     sig='%s %s' % (method,
                                                    url.split('?')[0]))
                if r.status >= 500:
                    runner.violation(ctx, 'no-5xx', '%s: %d' % (
                        what, r.status))
            ctx.data['obligations'] = ctx.data.get('obligations', 0) + 4
            ctx.data['discharged'] = ctx.data.get('discharged', 0) + 4 - \
                len(ctx.data.get('violations', []))
            return finish(ctx, 'headers')
    return Family('version-header-sequences', path, bounds=dict(
        requests=len(kinds), versions=[v[0] for v in versions],
        sequence='2 requests in one process, every combination'))


def families(tier):
    n = len(FEATURES)
    step = 18
    return [fam_features(i, min(n, i + step)) for i in range(0, n, step)] + \
        [fam_routes(), fam_negotiation(), fam_version_header(),
         fam_parameter_names()]


if __name__ == '__main__':
    sys.exit(runner.run_check(
        'C14', families, functions=FUNCTIONS,
        assumptions=['feature table transcribed from '
                     'rest_api_version_history.rst (DESIGN Appendix C); the '
                     'application receives Version(1, symbolic minor) from '
                     'the negotiation middleware',
                     'header negotiation strings: enumerated, not solved']))
