"""C15 — arbitrary input yields well-formed client errors, never a server
error (DESIGN 5/C15).  Claimed slice: numbers (every numeric leaf of every
request document / query symbolic, special floats enumerated), one-step
structural mutations of valid documents with symbolic numbers, symbolic
microversion for the error format, exotic topologies; string parsers by
CrossHair (bounded bug-hunting, reported as such)."""
import copy
import json
import os
import subprocess
import sys
import time
import z3

from engine import app, runner, symex
from engine.runner import Family, obligation, finish
from engine.scenario import (World, U, CONS, AGG, rel_diff, CORE_TABLES,
                             SHARING)
from engine.symdb import zbool
from engine.symex import to_z3
from checks import corpus, asserts, cands, c03

NO_CHANGE = (400, 404, 405, 406, 415)
MAXINT = 2 ** 63


def well_formed(ctx, r, what, minor=None):
    """status < 500 and, for errors, a JSON body per the errors guideline"""
    if r.status >= 500:
        runner.violation(ctx, 'no-5xx', '%s answered %d: %s' % (
            what, r.status, (r.error_detail or '')[:300]), sig=what)
        return
    if r.status >= 400:
        if not getattr(r, 'accepts_json', True):
            # "when the client accepts JSON": this client does not
            return
        js = r.json
        okb = isinstance(js, dict) and isinstance(js.get('errors'), list) \
            and js['errors'] and all(
                k in js['errors'][0] for k in ('status', 'title', 'detail',
                                               'request_id'))
        if not okb:
            runner.violation(ctx, 'error-body', '%s: %d without the '
                             'guideline error body' % (what, r.status),
                             sig=what)
            return
        if minor is not None:
            has = 'code' in js['errors'][0]
            m = to_z3(minor)
            obligation(ctx, 'error-code-from-1.23',
                       (m < 23) if has else (m >= 23),
                       '%s: code %s at this version' % (
                           what, 'present' if has else 'absent'), sig=what)


def unchanged_if_malformed(ctx, r, pre, post, what):
    if r.status in NO_CHANGE:
        obligation(ctx, 'malformed-changes-nothing',
                   zbool(rel_diff(pre, post, CORE_TABLES)),
                   '%s rejected with %d but changed stored state' % (
                       what, r.status), sig=what)


# ---- numbers: the write corpus with unconstrained numeric leaves ---------

def fam_numbers(shape):
    def path(ctx):
        app.setup()
        with shape.world(ctx, **shape.wkw) as w:
            pre = w.dump()
            r = shape.request(ctx, w, shape)
            post = w.dump()
            well_formed(ctx, r, shape.name)
            unchanged_if_malformed(ctx, r, pre, post, shape.name)
            return finish(ctx, str(r.status))
    return Family('numbers/' + shape.name, path, bounds=dict(
        numeric_leaves='every integer unconstrained, allocation_ratio any '
        'finite real', state='standard symbolic world'))


# ---- special floats ------------------------------------------------------

SPECIALS = ['NaN', 'Infinity', '-Infinity', '1e400', '-1e400', '-0.0',
            '1e-400']


def fam_special_floats():
    reqs = [
        ('PUT', '/resource_providers/%s/inventories' % U(1),
         '{"resource_provider_generation": 0, "inventories": {"VCPU": '
         '{"total": 4, "allocation_ratio": %s}}}'),
        ('PUT', '/resource_providers/%s/inventories/VCPU' % U(1),
         '{"resource_provider_generation": 0, "total": 4, '
         '"allocation_ratio": %s}'),
        ('POST', '/resource_providers/%s/inventories' % U(1),
         '{"resource_class": "DISK_GB", "total": 4, "allocation_ratio": %s}'),
        ('POST', '/reshaper',
         '{"inventories": {"%s": {"resource_provider_generation": 0, '
         '"inventories": {"VCPU": {"total": 4, "allocation_ratio": %%s}}}}, '
         '"allocations": {}}' % U(1)),
        ('PUT', '/resource_providers/%s/inventories/VCPU' % U(1),
         '{"resource_provider_generation": 0, "total": %s}'),
        ('PUT', '/allocations/' + CONS(5),
         '{"allocations": {"%s": {"resources": {"VCPU": %%s}}}, '
         '"project_id": "p", "user_id": "u", "consumer_generation": null}'
         % U(1)),
    ]

    def path(ctx):
        app.setup()
        method, url, tmpl = reqs[symex.choose(len(reqs))]
        sp = SPECIALS[symex.choose(len(SPECIALS))]
        with World(ctx) as w:
            w.rc('VCPU')
            w.rc('DISK_GB')
            w.provider(1, generation=0)
            w.inventory(1, 'VCPU', present=True, total=8, reserved=0,
                        min_unit=1, max_unit=8, step_size=1,
                        allocation_ratio=1.0)
            b = ctx.bool('has_alloc')
            w.project('p')
            w.user('u')
            w.allocation(2, 1, 'VCPU', present=b, used=ctx.int('used', 1))
            w.consumer(2, present=b, generation=0)
            pre = w.dump()
            r = app.call(method, url, raw_body=(tmpl % sp).encode(),
                         content_type='application/json', version='1.36',
                         roles='admin,service')
            post = w.dump()
            what = '%s %s with %s' % (method, url.split('/')[-1], sp)
            well_formed(ctx, r, what)
            unchanged_if_malformed(ctx, r, pre, post, what)
            return finish(ctx, '%s:%d' % (sp, r.status))
    return Family('special-floats', path, bounds=dict(
        values=SPECIALS, requests=len(reqs)))


# ---- one-step structural mutations -----------------------------------------

def mutations(doc):
    """every document one mutation away from doc: a key removed, a value
    replaced by null / a string / a list / an object / a boolean, an unknown
    key added (at every nesting level)"""
    out = []

    def walk(node, path):
        if isinstance(node, dict):
            for k in list(node):
                out.append(('del', path + [k], None))
                for repl in (None, 'x', [], {}, True, -1):
                    out.append(('set', path + [k], repl))
                walk(node[k], path + [k])
            out.append(('add', path + ['zzz_unknown'], 1))
        elif isinstance(node, list):
            for i, v in enumerate(node):
                walk(v, path + [i])
            out.append(('append', path, 'x'))
    walk(doc, [])
    return out


def apply_mutation(doc, m):
    kind, path, val = m
    d = copy.deepcopy(doc)
    node = d
    for k in path[:-1]:
        node = node[k]
    if kind == 'del':
        del node[path[-1]]
    elif kind in ('set', 'add'):
        node[path[-1]] = val
    elif kind == 'append':
        tgt = d
        for k in path:
            tgt = tgt[k]
        tgt.append(val)
    return d


DOCS = [
    ('PUT', '/allocations/' + CONS(5), '1.38', lambda ctx: {
        'allocations': {U(1): {'resources': {'VCPU': ctx.int('a')}}},
        'project_id': 'p', 'user_id': 'u', 'consumer_generation': None,
        'consumer_type': 'INSTANCE', 'mappings': {'': [U(1)]}}),
    ('POST', '/allocations', '1.36', lambda ctx: {CONS(5): {
        'allocations': {U(1): {'resources': {'VCPU': ctx.int('a')}}},
        'project_id': 'p', 'user_id': 'u',
        'consumer_generation': None}}),
    ('PUT', '/resource_providers/%s/inventories' % U(1), '1.36',
     lambda ctx: {'resource_provider_generation': ctx.int('g'),
                  'inventories': {'VCPU': {
                      'total': ctx.int('t'), 'reserved': ctx.int('r'),
                      'allocation_ratio': ctx.real('ra')}}}),
    ('POST', '/reshaper', '1.36', lambda ctx: {
        'inventories': {U(1): {
            'resource_provider_generation': ctx.int('g'),
            'inventories': {'VCPU': {'total': ctx.int('t')}}}},
        'allocations': {CONS(2): {
            'allocations': {U(1): {'resources': {'VCPU': ctx.int('a')}}},
            'project_id': 'p', 'user_id': 'u',
            'consumer_generation': ctx.int('cg')}}}),
    ('PUT', '/resource_providers/%s/traits' % U(1), '1.36',
     lambda ctx: {'resource_provider_generation': ctx.int('g'),
                  'traits': ['CUSTOM_T1']}),
    ('PUT', '/resource_providers/%s/aggregates' % U(1), '1.36',
     lambda ctx: {'resource_provider_generation': ctx.int('g'),
                  'aggregates': [AGG(1)]}),
    ('POST', '/resource_providers', '1.36',
     lambda ctx: {'name': 'new', 'uuid': U(9),
                  'parent_provider_uuid': U(1)}),
    ('PUT', '/resource_providers/' + U(1), '1.37',
     lambda ctx: {'name': 'p1x', 'parent_provider_uuid': None}),
]



def _doc_world(ctx):
    w = World(ctx)
    w.rc('VCPU')
    w.trait('CUSTOM_T1')
    w.agg(1)
    w.project('p')
    w.user('u')
    w.consumer_type('INSTANCE')
    w.provider(1, generation=ctx.int('gen_p1', 0))
    w.inventory(1, 'VCPU', present=True)
    b = ctx.bool('has_alloc')
    w.allocation(2, 1, 'VCPU', present=b, used=ctx.int('used', 1))
    w.consumer(2, present=b, generation=ctx.int('cgen2', 0))
    return w


def fam_mutations():
    docs = DOCS

    def path(ctx):
        app.setup()
        method, url, ver, mk = docs[symex.choose(len(docs))]
        with _doc_world(ctx) as w:
            doc = mk(ctx)
            ms = mutations(doc)
            m = ms[symex.choose(len(ms))]
            body = apply_mutation(doc, m)
            pre = w.dump()
            r = app.call(method, url, body, version=ver,
                         roles='admin,service')
            post = w.dump()
            what = '%s %s mutated %s %s' % (method, url.split('/')[1],
                                            m[0], '/'.join(map(str, m[1])))
            well_formed(ctx, r, what)
            unchanged_if_malformed(ctx, r, pre, post, what)
            return finish(ctx, str(r.status))
    return Family('mutations', path, bounds=dict(
        documents=len(docs), mutation='delete key / null / string / list / '
        'object / boolean / -1 / unknown key, at every level; numeric '
        'leaves symbolic'))


# ---- hostile strings in every string position of every document ------------

HOSTILE = ['a\ud800', '\udfff', 'a\x00b', '', ' ', 'x' * 300, '\U0001F600',
           '\u00e9', 'a\nb', '%s', '%(x)s', '{0}', 'p', 'CUSTOM_T1', U(1),
           U(1).upper(), U(1).replace('-', ''), '{' + U(1) + '}',
           'urn:uuid:' + U(1)]


def string_sites(doc):
    """paths of string leaves, and of dictionary keys, in doc"""
    out = []

    def walk(node, path):
        if isinstance(node, dict):
            for k in list(node):
                out.append(('key', path + [k]))
                walk(node[k], path + [k])
        elif isinstance(node, list):
            for i, v in enumerate(node):
                walk(v, path + [i])
        elif isinstance(node, str):
            out.append(('val', path))
    walk(doc, [])
    return out


def put_string(doc, site, s):
    kind, path = site
    d = copy.deepcopy(doc)
    node = d
    for k in path[:-1]:
        node = node[k]
    if kind == 'val':
        node[path[-1]] = s
    else:
        node[s] = node.pop(path[-1])
    return d


def fam_strings():
    def path(ctx):
        app.setup()
        method, url, ver, mk = DOCS[symex.choose(len(DOCS))]
        with _doc_world(ctx) as w:
            doc = mk(ctx)
            sites = string_sites(doc)
            site = sites[symex.choose(len(sites))]
            hs = HOSTILE[symex.choose(len(HOSTILE))]
            body = put_string(doc, site, hs)
            pre = w.dump()
            r = app.call(method, url, body, version=ver,
                         roles='admin,service')
            post = w.dump()
            what = '%s %s %s %s := %a' % (method, url.split('/')[1], site[0],
                                          '/'.join(map(str, site[1])),
                                          hs[:20])
            well_formed(ctx, r, what)
            unchanged_if_malformed(ctx, r, pre, post, what)
            return finish(ctx, str(r.status))
    return Family('strings', path, bounds=dict(
        documents=len(DOCS), values=len(HOSTILE),
        sites='every string leaf and every dictionary key of every '
        'document; numeric leaves symbolic'))


# ---- raw request bodies ------------------------------------------------------

RAW = [b'', b' ', b'null', b'true', b'0', b'"s"', b'[]', b'{}', b'\xff',
       b'{"name": "\xff"}', b'\xef\xbb\xbf{}', b'[' * 5000,
       b'{"a":' * 5000 + b'1' + b'}' * 5000, b'{} x', b'{"a":1,"a":2}',
       b'NaN', b'{"name": 1e400}', b'-', b'{"name": "\\ud800"}',
       b'{"\\ud800": 1}', b'\x00', b'{"name": "x"}\n\n', b'{"name": 01}',
       b"{'name': 'x'}", b'{"name": "x",}', b'1' * 5000,
       b'{"name": ' + b'9' * 5000 + b'}']
CTYPES = ['application/json', 'application/json; charset=utf-8',
          'application/json; charset=latin-1', 'text/plain', '', None,
          'application/x-www-form-urlencoded', 'APPLICATION/JSON']


def fam_raw_bodies():
    targets = [(m, u, v) for m, u, v, mk in DOCS] + [
        ('PUT', '/traits/CUSTOM_NEW', '1.36'),
        ('PUT', '/resource_classes/CUSTOM_NEW', '1.36'),
        ('POST', '/resource_classes', '1.36'),
        ('DELETE', '/resource_providers/' + U(1), '1.36'),
        ('GET', '/resource_providers', '1.36')]

    def path(ctx):
        app.setup()
        method, url, ver = targets[symex.choose(len(targets))]
        raw = RAW[symex.choose(len(RAW))]
        ct = CTYPES[symex.choose(len(CTYPES))] \
            if raw in (b'{}', b'', b'{"name": "x"}\n\n') else CTYPES[0]
        with _doc_world(ctx) as w:
            pre = w.dump()
            r = app.call(method, url, raw_body=raw, content_type=ct,
                         version=ver, roles='admin,service')
            post = w.dump()
            what = '%s %s raw %a (%s)' % (method, url.split('/')[1],
                                          raw[:16], ct)
            well_formed(ctx, r, what)
            unchanged_if_malformed(ctx, r, pre, post, what)
            return finish(ctx, str(r.status))
    return Family('raw-bodies', path, bounds=dict(
        targets=len(targets), bodies=len(RAW), content_types=len(CTYPES)))


# ---- framing headers ----------------------------------------------------------

def content_length_values():
    """Values of a Content-Length header, one per equivalence class of what
    Python's own predicates say about a header string (a WSGI header value
    is a latin-1 string): computed here, not listed by hand.  Classes of a
    character: ASCII digit; digit for str.isdigit() but not for int()
    (superscripts); numeric but not digit (fractions); sign; space; other.
    Strings: each class alone, before and after an ASCII digit, and digit
    strings on both sides of the interpreter's int/str conversion limit."""
    import sys
    classes = {}
    for i in range(256):
        c = chr(i)
        try:
            int(c)
            conv = True
        except ValueError:
            conv = False
        key = (c.isdigit(), conv, c.isnumeric(), c in '+-', c.isspace())
        classes.setdefault(key, c)
    out = ['']
    for c in classes.values():
        out += [c, '1' + c, c + '1']
    lim = getattr(sys, 'get_int_max_str_digits', lambda: 4300)() or 4300
    out += ['9' * lim, '9' * (lim + 1), '0' * (lim + 1) + '1']
    # and on both sides of what the platform can use as a size
    out += [str(sys.maxsize), str(sys.maxsize + 1), str(2 ** 32),
            str(2 ** 64)]
    seen = []
    for v in out:
        if v not in seen:
            seen.append(v)
    return seen


def fam_content_length():
    targets = [('POST', '/resource_providers', b'{"name": "x"}'),
               ('PUT', '/resource_providers/%s/inventories' % U(1),
                b'{"resource_provider_generation": 0, "inventories": {}}'),
               ('GET', '/resource_providers', b''),
               ('DELETE', '/resource_providers/' + U(1), b'')]
    values = content_length_values()

    def path(ctx):
        app.setup()
        method, url, raw = targets[symex.choose(len(targets))]
        v = values[symex.choose(len(values))]
        with _doc_world(ctx) as w:
            pre = w.dump()
            r = app.call(method, url, raw_body=raw or None,
                         content_type='application/json' if raw else None,
                         version='1.36', roles='admin,service',
                         environ={'CONTENT_LENGTH': v})
            post = w.dump()
            what = '%s %s content-length %a' % (method, url.split('/')[1],
                                                v[:12])
            well_formed(ctx, r, what)
            unchanged_if_malformed(ctx, r, pre, post, what)
            return finish(ctx, str(r.status))
    return Family('content-length', path, bounds=dict(
        targets=len(targets), values=len(values),
        classes='per-character classes of (isdigit, int() accepts, '
        'isnumeric, sign, space) over latin-1, alone / after / before a '
        'digit; digit strings around the int conversion limit'))


# ---- path items ---------------------------------------------------------------

def fam_path_items():
    items = ['%FF', '%00', 'x' * 300, U(1).upper(), U(1).replace('-', ''),
             '..', '%2F', '%C3%A9', '%ED%A0%80', ' ', '%20', U(99), 'VCPU',
             'CUSTOM_T1', 'CUSTOM_' + 'A' * 300, 'custom_x', '*', '%25s']
    routes = ['/resource_providers/{}', '/resource_providers/{}/inventories',
              '/resource_providers/{}/inventories/VCPU',
              '/resource_providers/%s/inventories/{}' % U(1),
              '/resource_providers/{}/usages',
              '/resource_providers/{}/aggregates',
              '/resource_providers/{}/traits',
              '/resource_providers/{}/allocations', '/allocations/{}',
              '/traits/{}', '/resource_classes/{}', '/{}', '/usages/{}']
    bodies = {'/allocations/{}': {
        'allocations': {U(1): {'resources': {'VCPU': 1}}},
        'project_id': 'p', 'user_id': 'u', 'consumer_generation': None},
        '/resource_providers/{}': {'name': 'renamed'}}

    def path(ctx):
        app.setup()
        rt = routes[symex.choose(len(routes))]
        it = items[symex.choose(len(items))]
        method = ('GET', 'PUT', 'DELETE', 'POST')[symex.choose(4)]
        body = bodies.get(rt) if method in ('PUT', 'POST') else None
        if body is None and method in ('PUT', 'POST'):
            body = {}
        with _doc_world(ctx) as w:
            pre = w.dump()
            r = app.call(method, rt.format(it), body, version='1.36')
            post = w.dump()
            what = '%s %s with %s' % (method, rt, it[:12])
            well_formed(ctx, r, what)
            unchanged_if_malformed(ctx, r, pre, post, what)
            return finish(ctx, str(r.status))
    return Family('path-items', path, bounds=dict(
        routes=len(routes), items=len(items), methods=4))


# ---- repeated and conflicting query parameters -----------------------------------

def fam_query_repeats():
    """every query parameter given twice: valid then invalid, invalid then
    valid, two different valid values"""
    topo = c03.TOPOS['two'].but(sure_traits=[(1, 'CUSTOM_T1')],
                                sure_aggs=[(1, 1)])
    A = AGG(1)
    cand = 'resources=VCPU:1&resources_A=VCPU:1&resources_B=DISK_GB:1' \
        '&group_policy=none'
    table = [
        ('/allocation_candidates', cand, 'limit', '5', '2', 'abc'),
        ('/allocation_candidates', cand.replace('&group_policy=none', ''),
         'group_policy', 'none', 'isolate', 'bogus'),
        ('/allocation_candidates', 'resources_A=VCPU:1', 'resources',
         'VCPU:1', 'DISK_GB:1', 'VCPU:x'),
        ('/allocation_candidates', cand, 'required', 'CUSTOM_T1',
         '!CUSTOM_T1', '!!'),
        ('/allocation_candidates', cand, 'member_of', A, 'in:' + A, 'x'),
        ('/allocation_candidates', cand, 'in_tree', U(1), U(3), 'x'),
        ('/allocation_candidates', cand, 'root_required', 'CUSTOM_T1',
         '!CUSTOM_T1', 'x,,'),
        ('/allocation_candidates', cand, 'same_subtree', '_A,_B', '_B,_A',
         'x'),
        ('/allocation_candidates', cand, 'resources_A', 'VCPU:1', 'VCPU:2',
         'x'),
        ('/allocation_candidates', cand, 'required_A', 'CUSTOM_T1',
         '!CUSTOM_T1', ','),
        ('/allocation_candidates', cand, 'member_of_A', A, '!' + A, 'x'),
        ('/allocation_candidates', cand, 'in_tree_A', U(1), U(3), 'x'),
        ('/resource_providers', '', 'name', 'p1', 'p2', ''),
        ('/resource_providers', '', 'uuid', U(1), U(3), 'x'),
        ('/resource_providers', '', 'in_tree', U(1), U(3), 'x'),
        ('/resource_providers', '', 'member_of', A, 'in:' + A, 'x'),
        ('/resource_providers', '', 'required', 'CUSTOM_T1', '!CUSTOM_T1',
         '!!'),
        ('/resource_providers', '', 'resources', 'VCPU:1', 'DISK_GB:1',
         'VCPU:x'),
        ('/traits', '', 'name', 'in:CUSTOM_T1', 'startswith:CUSTOM', 'x'),
        ('/traits', '', 'associated', 'true', 'false', 'x'),
        ('/usages', '', 'project_id', 'p', 'q', ''),
        ('/usages', 'project_id=p', 'user_id', 'u', 'v', ''),
        ('/usages', 'project_id=p', 'consumer_type', 'all', 'unknown',
         'bogus type'),
        ('/resource_classes', '', 'name', 'VCPU', 'x', ''),
    ]

    def path(ctx):
        app.setup()
        rt, base, prm, g1, g2, bad = table[symex.choose(len(table))]
        a, b = [(g1, bad), (bad, g1), (g1, g2), (bad, bad)][symex.choose(4)]
        import urllib.parse
        qt = lambda v: urllib.parse.quote(v, safe=':,!_-')
        q = '&'.join(x for x in (
            '%s=%s' % (prm, qt(a)), base, '%s=%s' % (prm, qt(b))) if x)
        with cands.CW(ctx, topo, usage=False) as cw:
            pre = cw.w.dump()
            r = app.call('GET', rt + '?' + q, version='1.39')
            post = cw.w.dump()
            what = '%s?%s=%r&...&%s=%r' % (rt, prm, a, prm, b)
            well_formed(ctx, r, what)
            obligation(ctx, 'read-changes-nothing',
                       zbool(rel_diff(pre, post, CORE_TABLES)),
                       '%s changed stored state' % what)
            return finish(ctx, str(r.status))
    return Family('query-repeats', path, bounds=dict(
        parameters=len(table), orders=4))


# ---- error format at a symbolic microversion ---------------------------------

def fam_error_format():
    reqs = [
        ('GET', '/resource_providers/' + U(99), None, 404),
        ('GET', '/resource_providers?resources=VCPU:0', None, 400),
        ('POST', '/resource_providers', {'name': 'p1', 'uuid': U(1)}, 409),
        ('POST', '/resource_providers', {'nome': 'x'}, 400),
        ('DELETE', '/resource_providers', None, 405),
        ('GET', '/nothing/here', None, 404),
        ('PUT', '/resource_providers/%s/inventories' % U(1),
         {'resource_provider_generation': 99, 'inventories': {}}, 409),
        ('DELETE', '/resource_providers/' + U(1), None, 409),
    ]

    def path(ctx):
        app.setup()
        method, url, body, want = reqs[symex.choose(len(reqs))]
        minor = app.sym_minor(ctx)
        with World(ctx) as w:
            w.rc('VCPU')
            w.project('p')
            w.user('u')
            w.provider(1, generation=0)
            w.provider(2, parent=1, generation=0)
            r = app.call(method, url, body, version='sym')
            if r.status < 400:
                runner.violation(ctx, 'expected-error', '%s %s: %d' % (
                    method, url, r.status), sig='%s %s' % (method, url))
            well_formed(ctx, r, '%s %s' % (method, url.split('?')[0]), minor)
            return finish(ctx, str(r.status))
    return Family('error-format', path,
                  bounds=dict(requests=len(reqs), minor='symbolic 0..39'))


# ---- version bands: a document valid for a band, symbolic minor in the band

def fam_version_bands():
    A_LIST = [{'resource_provider': {'uuid': U(1)}, 'resources': {'VCPU': 1}}]
    A_DICT = {U(1): {'resources': {'VCPU': 1}}}
    bands = [
        # (lo, hi, method, url, body, expected success status)
        (0, 7, 'PUT', '/allocations/' + CONS(5), {'allocations': A_LIST}, 204),
        (8, 11, 'PUT', '/allocations/' + CONS(5),
         {'allocations': A_LIST, 'project_id': 'p', 'user_id': 'u'}, 204),
        (12, 27, 'PUT', '/allocations/' + CONS(5),
         {'allocations': A_DICT, 'project_id': 'p', 'user_id': 'u'}, 204),
        (28, 37, 'PUT', '/allocations/' + CONS(5),
         {'allocations': A_DICT, 'project_id': 'p', 'user_id': 'u',
          'consumer_generation': None}, 204),
        (38, 39, 'PUT', '/allocations/' + CONS(5),
         {'allocations': A_DICT, 'project_id': 'p', 'user_id': 'u',
          'consumer_generation': None, 'consumer_type': 'INSTANCE'}, 204),
        (13, 27, 'POST', '/allocations', {CONS(5): {
            'allocations': A_DICT, 'project_id': 'p', 'user_id': 'u'}}, 204),
        (28, 37, 'POST', '/allocations', {CONS(5): {
            'allocations': A_DICT, 'project_id': 'p', 'user_id': 'u',
            'consumer_generation': None}}, 204),
        (38, 39, 'POST', '/allocations', {CONS(5): {
            'allocations': A_DICT, 'project_id': 'p', 'user_id': 'u',
            'consumer_generation': None, 'consumer_type': 'INSTANCE'}}, 204),
        (30, 37, 'POST', '/reshaper', {'inventories': {U(1): {
            'resource_provider_generation': 0,
            'inventories': {'VCPU': {'total': 8}}}}, 'allocations': {}}, 204),
        (1, 18, 'PUT', '/resource_providers/%s/aggregates' % U(1),
         [AGG(1)], 200),
        (19, 39, 'PUT', '/resource_providers/%s/aggregates' % U(1),
         {'resource_provider_generation': 0, 'aggregates': [AGG(1)]}, 200),
        (0, 19, 'POST', '/resource_providers', {'name': 'n', 'uuid': U(9)},
         201),
        (20, 39, 'POST', '/resource_providers', {'name': 'n', 'uuid': U(9)},
         200),
        (14, 39, 'POST', '/resource_providers',
         {'name': 'n', 'uuid': U(9), 'parent_provider_uuid': U(1)}, None),
        (0, 39, 'PUT', '/resource_providers/%s/inventories' % U(1),
         {'resource_provider_generation': 0,
          'inventories': {'VCPU': {'total': 8}}}, 200),
        (6, 39, 'PUT', '/resource_providers/%s/traits' % U(1),
         {'resource_provider_generation': 0, 'traits': []}, 200),
        (2, 6, 'PUT', '/resource_classes/CUSTOM_OLD', {'name': 'CUSTOM_NEW'},
         200),
        (7, 39, 'PUT', '/resource_classes/CUSTOM_NEW', None, 201),
    ]

    def path(ctx):
        app.setup()
        lo, hi, method, url, body, want = bands[symex.choose(len(bands))]
        minor = app.sym_minor(ctx, lo, hi)
        with World(ctx) as w:
            w.rc('VCPU')
            w.rc('CUSTOM_OLD', 10000)
            w.project('p')
            w.user('u')
            w.consumer_type('INSTANCE')
            w.provider(1, generation=0)
            w.inventory(1, 'VCPU', present=True, total=8, reserved=0,
                        min_unit=1, max_unit=8, step_size=1,
                        allocation_ratio=1.0)
            r = app.call(method, url, copy.deepcopy(body), version='sym',
                         roles='admin,service')
            what = '%s %s valid for 1.%d-1.%d' % (method, url.split('/')[1],
                                                  lo, hi)
            well_formed(ctx, r, what)
            if r.status >= 400 or (want is not None and r.status != want):
                runner.violation(ctx, 'valid-request-accepted',
                                 '%s answered %d' % (what, r.status),
                                 sig=what)
            return finish(ctx, str(r.status))
    return Family('version-bands', path, bounds=dict(
        documents=len(bands), minor='symbolic inside each band'))


# ---- numeric query values and exotic topologies ------------------------------

def fam_query_numbers():
    topos = {
        'nested-sharing': c03.TOPOS['nest-s'],
        'self-sharing': cands.Topo(
            'self', {1: None, 2: None}, invs=[],
            sure=[(1, 'VCPU'), (1, 'DISK_GB'), (2, 'VCPU')],
            aggs=[(1, 1)], sure_aggs=[(2, 1)], sharing=[1]),
        'empty-tree': cands.Topo('empty', {1: None, 2: 1, 3: None}, invs=[
            (3, 'VCPU')]),
    }
    queries = [
        'resources=VCPU:%s', 'resources=VCPU:%s,DISK_GB:1',
        'resources=VCPU:1&limit=%s', 'resources1=VCPU:%s&resources2=DISK_GB:1'
        '&group_policy=isolate', 'resources=VCPU:%s&resources_X=VCPU:1',
    ]
    values = ['$sym', '0', '-1', str(MAXINT), str(MAXINT * 4), '1.5', '',
              '00', '+1', '1e3', '9' * 5000, '1' + '0' * 4400]
    paths_ = ['/allocation_candidates', '/resource_providers']

    def path(ctx):
        app.setup()
        tname = sorted(topos)[symex.choose(len(topos))]
        q = queries[symex.choose(len(queries))]
        v = values[symex.choose(len(values))]
        base = paths_[symex.choose(len(paths_))]
        if base == '/resource_providers' and 'resources=' not in q:
            q = queries[0]
        with cands.CW(ctx, topos[tname], usage=False) as cw:
            if v == '$sym':
                a = ctx.int('qv')
                ctx.data.setdefault('tokens', {})['$sq'] = a
                v = '$sq'
                # '%d' of a proxy inside the error text for amounts < 1 is
                # a formatting boundary (DESIGN 3.4): concrete 0 and -1 cover
                # that side
                ctx.assume(to_z3(a) >= 1)
            pre = cw.w.dump()
            r = app.call('GET', base + '?' + (q % v), version='1.39')
            post = cw.w.dump()
            what = '%s?%s on %s' % (base, q % v, tname)
            well_formed(ctx, r, what)
            obligation(ctx, 'read-changes-nothing',
                       zbool(rel_diff(pre, post, CORE_TABLES)),
                       '%s changed stored state' % what)
            return finish(ctx, str(r.status))
    return Family('query-numbers', path, bounds=dict(
        topologies=sorted(topos), values=values, queries=len(queries)))


# ---- blank / degenerate string values for every query parameter ---------

def fam_query_strings():
    """every query parameter of the listing routes x a catalogue of blank and
    degenerate values, alone and next to an otherwise valid query, on states
    where the valid part has results (finite, enumerated as decisions)"""
    topo = c03.TOPOS['two'].but(sure_traits=[(1, 'CUSTOM_T1')],
                                sure_aggs=[(1, 1)])
    A = AGG(1)
    vals = ['', ' ', ',', ', ,', 'x', '!', '!!', 'in:', '!in:', 'in:,', ':',
            'VCPU', 'VCPU:', ':1', 'VCPU:1,', ',VCPU:1', 'VCPU:1:1', '!,',
            U(1), U(1) + ',', A, A + ',', 'in:' + A + ',', 'none', '_A',
            '_A,', ',_A', '_A,_B', '_A,,_B', '0', '-1', '1e3', '%00',
            'CUSTOM_T1', 'CUSTOM_T1,', '!CUSTOM_T1,', 'in:CUSTOM_T1,!x',
            'RAW:%FF', 'RAW:%C0%80', 'RAW:%ED%A0%80', 'RAW:%F4%90%80%80',
            'RAW:a%00b', 'RAW:%', 'RAW:%zz', 'RAW:a+b', 'RAW:a;b=c',
            str(2 ** 63), str(2 ** 64), '-' + str(2 ** 63)]
    routes = {
        '/allocation_candidates': (
            'resources=VCPU:1&resources_A=VCPU:1&resources_B=DISK_GB:1'
            '&group_policy=none',
            ['resources', 'required', 'member_of', 'in_tree', 'limit',
             'group_policy', 'root_required', 'same_subtree', 'resources_C',
             'required_A', 'member_of_A', 'in_tree_A', 'required_C']),
        '/resource_providers': (
            '', ['name', 'uuid', 'in_tree', 'member_of', 'required',
                 'resources']),
        '/traits': ('', ['name', 'associated']),
        '/usages': ('project_id=p', ['user_id', 'consumer_type',
                                     'project_id']),
        '/resource_classes': ('', ['name']),
    }
    flat = [(rt, base, prm) for rt, (base, prms) in sorted(routes.items())
            for prm in prms]

    def path(ctx):
        app.setup()
        rt, base, prm = flat[symex.choose(len(flat))]
        v = vals[symex.choose(len(vals))]
        import urllib.parse
        qv = v[4:] if v.startswith('RAW:') else \
            urllib.parse.quote(v, safe=':,!_-')
        q = '&'.join(x for x in (base, '%s=%s' % (prm, qv)) if x)
        with cands.CW(ctx, topo, usage=False) as cw:
            pre = cw.w.dump()
            r = app.call('GET', rt + '?' + q, version='1.39')
            post = cw.w.dump()
            what = '%s?...%s=%r' % (rt, prm, v)
            well_formed(ctx, r, what)
            obligation(ctx, 'read-changes-nothing',
                       zbool(rel_diff(pre, post, CORE_TABLES)),
                       '%s changed stored state' % what)
            return finish(ctx, str(r.status))
    return Family('query-strings', path, bounds=dict(
        parameters=len(flat), values=len(vals),
        state='tree + flat node with inventories (the valid part of the '
              'query has candidates); inventory numbers symbolic'))


# ---- strings: CrossHair on the pure parsers ----------------------------------

CH_TARGET = os.path.join(os.path.dirname(os.path.abspath(__file__)),
                         'ch_parsers.py')


def fam_crosshair(timeout):
    def path(ctx):
        app.setup()
        t0 = time.time()
        env = dict(os.environ, PYTHONPATH='/verif:' + app.SRC)
        p = subprocess.run(
            [sys.executable, '-m', 'crosshair', 'check', '--report_all',
             '--per_condition_timeout', str(timeout),
             '--per_path_timeout', '5', CH_TARGET],
            capture_output=True, text=True, env=env,
            timeout=timeout * 12 + 60)
        out = (p.stdout or '') + (p.stderr or '')
        lines = [l for l in out.splitlines() if l.strip()]
        bad = [l for l in lines if 'error:' in l and 'Not confirmed' not in l
               and 'Unable to meet' not in l]
        confirmed = sum('Confirmed over all paths' in l for l in lines)
        notconf = sum('Not confirmed' in l for l in lines)
        ctx.data['obligations'] = len(lines) or 1
        ctx.data['discharged'] = confirmed
        ctx.notes.append(out[-2000:])
        import re
        import importlib
        chp = importlib.import_module('checks.ch_parsers')
        for l in bad:
            # replay the counterexample natively against the real parser
            m = re.search(r'when calling (\w+\(.*\))\s*$', l)
            confirmed_here = False
            if m:
                try:
                    eval(m.group(1), vars(chp))
                except Exception:
                    confirmed_here = True
            if confirmed_here:
                runner.violation(ctx, 'parser-raises-only-400', l[-400:],
                                 sig=m.group(1)[:60])
            else:
                ctx.notes.append('crosshair report did not reproduce: ' + l)
        return finish(ctx, 'crosshair:%d confirmed/%d not confirmed/%d '
                      'counterexamples' % (confirmed, notconf, len(bad)),
                      info=dict(seconds=round(time.time() - t0, 1),
                                tail=out[-1500:]))
    return Family('strings-crosshair', path, conformance=False, bounds=dict(
        engine='crosshair-tool, symbolic str, per-condition timeout %ds; '
        '"Not confirmed" = no counterexample within the budget (bug-hunting '
        'only, not a proof)' % timeout))


def families(tier):
    shapes = corpus.shapes(tier)
    if tier == 'quick':
        keep = {'alloc-put', 'alloc-post-2c', 'reshape-move', 'inv-put-all',
                'inv-post', 'aggs-put-new', 'traits-put-unknown',
                'alloc-put-2classes-p2', 'alloc-post-2c-2classes'}
        shapes = [s for s in shapes if s.name in keep]
    fams = [fam_numbers(s) for s in shapes]
    fams += [fam_special_floats(), fam_mutations(), fam_error_format(),
             fam_query_numbers(), fam_query_strings(), fam_version_bands(),
             fam_strings(), fam_raw_bodies(), fam_content_length(), fam_path_items(),
             fam_query_repeats()]
    if os.environ.get('VERIF_NO_CROSSHAIR') != '1':
        fams.append(fam_crosshair(8 if tier == 'quick' else 60))
    return fams


if __name__ == '__main__':
    sys.exit(runner.run_check(
        'C15', families,
        functions=corpus.ALLOC_FUNCS + corpus.INV_FUNCS + [
            'placement.util.extract_json / json_error_formatter',
            'placement.fault_wrap.FaultWrapper',
            'placement.handler.PlacementHandler (404/405 dispatch)',
            'placement.util.normalize_*_qs_param*, placement.lib.'
            '_fix_one_forbidden (CrossHair)'],
        assumptions=['claimed slice only: numbers, one-step structural '
                     'mutations, special floats, error format, exotic '
                     'topologies, short strings through the pure parsers; '
                     'arbitrary unicode / header combinations / webob, '
                     'routes and keystonemiddleware internals are outside '
                     'the claim'],
        quick_budget=420, thorough_budget=2400))
