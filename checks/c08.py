"""C08 — stored records never dangle (inductive step over the write corpus) (DESIGN 5/C08)."""
import sys

from engine import runner
from checks import corpus, asserts


def families(tier):
    return [corpus.make_family(s, [asserts.no_dangling, asserts.no_5xx])
            for s in corpus.shapes(tier)]


if __name__ == '__main__':
    sys.exit(runner.run_check(
        'C08', families,
        functions=corpus.ALLOC_FUNCS + corpus.INV_FUNCS,
        assumptions=['pre-state: standard world of checks/corpus.py under '
                     'its stated invariant (allocation => inventory, '
                     'consumer row <=> allocations)',
                     'see DESIGN.md 3.4 for shims, 3.2 for arithmetic']))
