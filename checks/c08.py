"""C08 — stored records never dangle (inductive step over the write corpus) (DESIGN 5/C08)."""
import sys

from engine import runner, symex
from checks import corpus, asserts


def conc_world(ctx):
    from engine.scenario import World
    w = World(ctx)
    w.rc('VCPU')
    w.rc('CUSTOM_FOO', 10000)
    w.trait('CUSTOM_T1')
    w.project('proj')
    w.user('user')
    w.provider(1, generation=0)
    w.provider(2, generation=0)
    w.inventory(1, 'VCPU', present=True, total=ctx.int('total', 1),
                reserved=0, min_unit=1, max_unit=ctx.int('max', 1),
                step_size=1, allocation_ratio=1.0)
    return w


def conc_world_c1(ctx):
    """conc_world plus an existing consumer holding VCPU on provider 1"""
    w = conc_world(ctx)
    w.allocation(1, 1, 'VCPU', present=True, used=1)
    w.consumer(1, present=True, generation=ctx.int('cgen', 0))
    return w


def conc_world_2classes(ctx):
    """conc_world plus a second custom class with a higher identifier"""
    w = conc_world(ctx)
    w.rc('CUSTOM_BAR', 10001)
    return w


def conc_world_2traits(ctx):
    """conc_world plus a second custom trait with a higher identifier"""
    w = conc_world(ctx)
    w.trait('CUSTOM_T2')
    return w


def schedule_sig(reqs, trace):
    """fingerprint of an interleaving: who ran, in order, with the number of
    consecutive scheduling points each was given (put_traitsx3,delete_traitx2,
    put_traitsx1 = put_traits was paused at the start of its third
    transaction while delete_trait ran to completion)"""
    runs = []
    for k in trace:
        if runs and runs[-1][0] == k:
            runs[-1][1] += 1
        else:
            runs.append([k, 1])
    return ','.join('%s%dx%d' % (reqs[k].name, k, n) for k, n in runs)


def conc_family(name, mk_reqs, world=None, max_preemptions=None,
                sig_schedule=False, catalogue=False):
    """removal of an entity racing a request that starts using it: after
    every schedule nothing dangles and the hierarchy is a forest"""
    from engine import app
    from engine.runner import Family, finish
    from checks import conc, c18

    catalogue = catalogue or 'delete_class' in name or \
        'delete_trait' in name

    def path(ctx):
        app.setup()
        reqs = mk_reqs()
        # catalogue: the scenario writes the trait / class catalogue, so
        # transactions touching only those tables are scheduling points too
        from engine import inject
        pre, results, final, sched, writes = conc.run_concurrent(
            ctx, world or conc_world, reqs, max_preemptions=max_preemptions,
            contended=inject.CONTENDED + ('traits', 'resource_classes')
            if catalogue else None)
        for i, r in enumerate(results):
            if r.status >= 500:
                runner.violation(ctx, 'no-5xx', '%s: %d' % (reqs[i].name,
                                                            r.status),
                                 sig=reqs[i].name)
        asserts.no_dangling(ctx, None, None, pre, final, results[0],
                            sig=schedule_sig(reqs, sched.trace)
                            if sig_schedule else '')
        c18.forest_ok(ctx, final)
        return finish(ctx, ','.join(str(r.status) for r in results))
    return Family('conc/' + name, path, bounds=dict(
        schedules='every interleaving at transaction granularity' + (
            '' if max_preemptions is None else
            ' with at most %d pre-emption(s)' % max_preemptions)))


def _reqs():
    from engine import app
    from engine.scenario import U, CONS
    from checks.conc import Req

    def delete_provider(n):
        return Req('delete_provider', lambda ctx, w: app.call(
            'DELETE', '/resource_providers/' + U(n), version='1.36'))

    def put_alloc(p):
        return Req('put_alloc', lambda ctx, w: app.call(
            'PUT', '/allocations/' + CONS(1), {
                'allocations': {U(p): {'resources': {
                    'VCPU': ctx.int('amt', 1)}}},
                'project_id': 'proj', 'user_id': 'user',
                'consumer_generation': None}, version='1.36'))

    def delete_alloc():
        return Req('delete_alloc', lambda ctx, w: app.call(
            'DELETE', '/allocations/' + CONS(1), version='1.36'))

    def put_alloc_existing(p):
        return Req('put_alloc', lambda ctx, w: app.call(
            'PUT', '/allocations/' + CONS(1), {
                'allocations': {U(p): {'resources': {
                    'VCPU': ctx.int('amt', 1)}}},
                'project_id': 'proj', 'user_id': 'user',
                'consumer_generation': ctx.int('cgen', 0)}, version='1.36'))

    def post_child(parent):
        return Req('post_child', lambda ctx, w: app.call(
            'POST', '/resource_providers', {
                'name': 'child', 'uuid': U(7),
                'parent_provider_uuid': U(parent)}, version='1.36'))

    def move_under(n, parent):
        return Req('move_under', lambda ctx, w: app.call(
            'PUT', '/resource_providers/' + U(n), {
                'name': 'p%d' % n, 'parent_provider_uuid': U(parent)},
            version='1.37'))

    def delete_inventory(p):
        return Req('delete_inventory', lambda ctx, w: app.call(
            'DELETE', '/resource_providers/%s/inventories/VCPU' % U(p),
            version='1.36'))

    def delete_inventories(p):
        return Req('delete_inventories', lambda ctx, w: app.call(
            'DELETE', '/resource_providers/%s/inventories' % U(p),
            version='1.36'))

    def put_inventories_empty(p):
        return Req('put_inventories_empty', lambda ctx, w: app.call(
            'PUT', '/resource_providers/%s/inventories' % U(p), {
                'resource_provider_generation': 0, 'inventories': {}},
            version='1.36'))

    def delete_class():
        return Req('delete_class', lambda ctx, w: app.call(
            'DELETE', '/resource_classes/CUSTOM_FOO', version='1.36'))

    def post_inventory_custom(p):
        return Req('post_inventory', lambda ctx, w: app.call(
            'POST', '/resource_providers/%s/inventories' % U(p), {
                'resource_class': 'CUSTOM_FOO', 'total': 4}, version='1.36'))

    def put_inventories_custom(p):
        return Req('put_inventories_custom', lambda ctx, w: app.call(
            'PUT', '/resource_providers/%s/inventories' % U(p), {
                'resource_provider_generation': 0, 'inventories': {
                    'CUSTOM_FOO': {'total': ctx.int('foo_total', 1)}}},
            version='1.36'))

    def reshape_custom(p):
        return Req('reshape_custom', lambda ctx, w: app.call(
            'POST', '/reshaper', {'inventories': {U(p): {
                'resource_provider_generation': 0, 'inventories': {
                    'CUSTOM_FOO': {'total': ctx.int('foo_total', 1)}}}},
                'allocations': {}}, version='1.36', roles='admin,service'))

    def put_class():
        return Req('put_class', lambda ctx, w: app.call(
            'PUT', '/resource_classes/CUSTOM_FOO', version='1.36'))

    def delete_trait():
        return Req('delete_trait', lambda ctx, w: app.call(
            'DELETE', '/traits/CUSTOM_T1', version='1.36'))

    def put_trait():
        return Req('put_trait', lambda ctx, w: app.call(
            'PUT', '/traits/CUSTOM_T1', version='1.36'))

    def put_traits(p):
        return Req('put_traits', lambda ctx, w: app.call(
            'PUT', '/resource_providers/%s/traits' % U(p), {
                'resource_provider_generation': 0,
                'traits': ['CUSTOM_T1']}, version='1.36'))
    return locals()


def refusal_family(kind):
    """The refusal clauses for catalogue entries: a trait associated with a
    provider / a class that has inventory cannot be deleted (409, nothing
    changes), an unused custom one can (204, gone), a standard one never
    (400).  The association / inventory may sit on a root, on a child or on
    an unrelated root (symbolic presence bits)."""
    from engine import app
    from engine.runner import Family, finish, obligation
    from engine.scenario import World, rel_diff, CORE_TABLES
    from engine.symdb import Or, Not, zbool

    def path(ctx):
        app.setup()
        w = World(ctx)
        w.rc('VCPU')
        w.rc('CUSTOM_FOO', 10000)
        w.rc('CUSTOM_BAR', 10001)
        for t in ('CUSTOM_T1', 'CUSTOM_T2', 'HW_CPU_X86_AVX'):
            w.trait(t)
        w.provider(1)
        w.provider(2, parent=1)
        w.provider(3)
        bits = []
        for p in (1, 2, 3):
            if kind == 'trait':
                bits.append(w.has_trait(p, 'CUSTOM_T1'))
                w.has_trait(p, 'CUSTOM_T2')
            else:
                bits.append(w.inventory(p, 'CUSTOM_FOO')['present'])
                w.inventory(p, 'CUSTOM_BAR')
        with w:
            pre = w.dump()
            name = (('CUSTOM_T1', 'HW_CPU_X86_AVX') if kind == 'trait' else
                    ('CUSTOM_FOO', 'VCPU'))[symex.choose(2)]
            r = app.call('DELETE', ('/traits/' if kind == 'trait' else
                                    '/resource_classes/') + name,
                         version='1.36')
            post = w.dump()
            in_use = Or(*bits)
            if not name.startswith('CUSTOM_'):
                want = {400: True}
            else:
                want = {409: in_use, 204: Not(in_use)}
            if r.status not in want:
                runner.violation(ctx, 'refusal-status', 'DELETE %s %s: %d' % (
                    kind, name, r.status), sig='%s:%d' % (name, r.status))
                return finish(ctx, str(r.status))
            obligation(ctx, 'refusal-status', zbool(Not(want[r.status])),
                       'DELETE %s %s answered %d although it is %s' % (
                           kind, name, r.status,
                           'unused' if r.status == 409 else 'in use'),
                       sig='%s:%d' % (name, r.status))
            if r.status >= 400:
                obligation(ctx, 'refusal-changes-nothing', zbool(rel_diff(
                    pre, post, CORE_TABLES + ('traits', 'resource_classes'))),
                    'refused DELETE changed stored state')
            asserts.no_dangling(ctx, None, None, pre, post, r)
            return finish(ctx, str(r.status))
    return Family('refusal/delete_' + kind, path, bounds=dict(
        providers='root, its child, another root; the %s optional on each'
        % ('association' if kind == 'trait' else 'inventory')))


def families(tier):
    R = _reqs()
    fams = [corpus.make_family(s, [asserts.no_dangling, asserts.no_5xx])
            for s in corpus.shapes(tier)]
    fams += [refusal_family('trait'), refusal_family('class')]
    fams += [
        conc_family('delete_provider+put_alloc', lambda: [
            R['delete_provider'](1), R['put_alloc'](1)]),
        conc_family('delete_provider+post_child', lambda: [
            R['delete_provider'](1), R['post_child'](1)]),
        # removal of a consumer's allocations racing their replacement:
        # whatever the two are answered, no allocation may be left without
        # its consumer record
        conc_family('delete_alloc+put_alloc(same consumer)', lambda: [
            R['delete_alloc'](), R['put_alloc_existing'](1)],
            world=conc_world_c1),
        # a class is deleted while it is being deleted, re-created and used
        # (four requests, one pre-emption): whichever record a DELETE
        # removes, no inventory may be left pointing at it
        conc_family('delete_class+[delete_class;put_class;put_inventories]',
                    lambda: [R['delete_class'](), R['delete_class'](),
                             R['put_class'](),
                             R['put_inventories_custom'](2)],
                    world=conc_world_2classes, max_preemptions=1),
        # the same for a trait: the association count and the removal must
        # concern the same record
        conc_family('delete_trait+[delete_trait;put_trait;put_traits]',
                    lambda: [R['delete_trait'](), R['delete_trait'](),
                             R['put_trait'](), R['put_traits'](2)],
                    world=conc_world_2traits, max_preemptions=1,
                    sig_schedule=True),
        # the replace-all write resolves the class inside its transaction
        # (unlike POST of one inventory, see the note below)
        conc_family('delete_class+put_inventories', lambda: [
            R['delete_class'](), R['put_inventories_custom'](2)]),
        # the two races in which the unchanged tree does leave a dangling
        # row (POST of one inventory / PUT traits resolve the name in an
        # earlier transaction than the insert): known findings
        # KF-C08-race-class and KF-C08-race-trait, identified by the
        # schedule; any other schedule that leaves a dangling row is
        # reported
        conc_family('delete_class+post_inventory', lambda: [
            R['delete_class'](), R['post_inventory_custom'](2)],
            sig_schedule=True),
        conc_family('delete_trait+put_traits', lambda: [
            R['delete_trait'](), R['put_traits'](2)], sig_schedule=True),
    ]
    if tier == 'thorough':
        fams += [
            conc_family('delete_provider+move_under', lambda: [
                R['delete_provider'](1), R['move_under'](2, 1)]),
            conc_family('delete_inventory+put_alloc', lambda: [
                R['delete_inventory'](1), R['put_alloc'](1)]),
            conc_family('delete_inventories+put_alloc', lambda: [
                R['delete_inventories'](1), R['put_alloc'](1)]),
            conc_family('delete_class+reshape', lambda: [
                R['delete_class'](), R['reshape_custom'](2)]),
            conc_family('put_inventories_empty+put_alloc', lambda: [
                R['put_inventories_empty'](1), R['put_alloc'](1)]),
        ]
    return fams


if __name__ == '__main__':
    sys.exit(runner.run_check(
        'C08', families,
        functions=corpus.ALLOC_FUNCS + corpus.INV_FUNCS,
        assumptions=['pre-state: standard world of checks/corpus.py under '
                     'its stated invariant (allocation => inventory, '
                     'consumer row <=> allocations)',
                     'see DESIGN.md 3.4 for shims, 3.2 for arithmetic']))
