"""C17 — database faults end in an exactly-once retry or a clean failure
(DESIGN 5/C17).  The faulting statement and the fault kind are explorer
decisions; the data is symbolic."""
import sys
import traceback
import z3

from engine import app, runner, symex, inject
from engine.runner import Family, obligation, finish
from engine.scenario import rel_diff, CORE_TABLES
from engine.symdb import And, Or, Not, zbool
from checks import corpus


def well_formed_error(r):
    if not getattr(r, 'accepts_json', True):
        # the request's Accept header excludes JSON (corpus shapes
        # *-accept-text): the error is rendered in a type the client accepts;
        # "JSON error response" is read as C15 spells it out, "when the
        # client accepts JSON" (DESIGN 11.4).  The state clauses still apply.
        return bool(r.body)
    js = r.json
    if not isinstance(js, dict) or not isinstance(js.get('errors'), list) \
            or not js['errors']:
        return False
    e = js['errors'][0]
    return all(k in e for k in ('status', 'title', 'detail', 'request_id'))


def make_family(shape, kinds=inject.FAULT_KINDS, budget=1):
    def path(ctx):
        app.setup()
        with shape.world(ctx, **shape.wkw) as w0:
            pre = w0.dump()
            r0 = shape.request(ctx, w0, shape)
            post = w0.dump()
        with shape.world(ctx, **shape.wkw) as w:
            hook, un = inject.install_faults(w, kinds, budget)
            escaped = None
            r = None
            try:
                r = shape.request(ctx, w, shape)
            except symex.EngineSignal:
                raise
            except Exception as e:      # escaped the WSGI stack
                escaped = e
            finally:
                un()
            fin = w.dump()
        if not hook.injected:
            return finish(ctx, 'no-fault:%d' % r0.status,
                          info=dict(statements=hook.statements))
        what = ','.join('%s@%d:%s' % (k, i, t) for i, k, t in hook.injected)
        kind = '+'.join('%s@%s' % (k, t) for i, k, t in hook.injected)
        if escaped is not None:
            runner.violation(ctx, 'no-escaped-exception',
                             'fault %s: %s escaped the application' % (
                                 what, type(escaped).__name__), sig=kind)
            return finish(ctx, 'escaped')
        same_post = Not(rel_diff(fin, post, CORE_TABLES))
        same_pre = Not(rel_diff(fin, pre, CORE_TABLES))
        exact_once = And(r.status == r0.status, same_post)
        clean = And(r.status >= 400, well_formed_error(r), same_pre)
        bad = zbool(Not(Or(exact_once, clean)))
        differs = 'none'
        if not z3.is_false(z3.simplify(bad)) and ctx.check(bad) != 'unsat':
            # name the relations that differ from the state the answer
            # promises: the fault-free result for a success, the state
            # before the request for an error (fingerprint of the finding)
            ref = post if r.status < 400 else pre
            differs = '+'.join(
                t for t in CORE_TABLES
                if ctx.check(bad, zbool(rel_diff(fin, ref, (t,)))) == 'sat'
            ) or 'none'
        obligation(ctx, 'exactly-once-or-clean-failure', bad,
                   'fault %s: answered %d (fault-free: %d) and the stored '
                   'state is neither the fault-free result nor the state '
                   'before the request' % (what, r.status, r0.status),
                   sig='%s:%d:%s' % (kind, r.status, differs))
        if r.status >= 400 and not well_formed_error(r):
            runner.violation(ctx, 'well-formed-error',
                             'fault %s: %d without a JSON error body' % (
                                 what, r.status), sig=kind)
        return finish(ctx, '%s:%d' % (kind, r.status))
    return Family('fault/' + shape.name + ('' if budget == 1 else
                                           '/x%d' % budget), path,
                  bounds=dict(kind=shape.kind, fault_kinds=list(kinds),
                              faults_per_request=budget,
                              statement_index='every statement the request '
                              'issues (explorer decision)'))


def families(tier):
    from checks import c19
    return _families(tier) + [c19.fam_sync_faults()]


def _families(tier):
    shapes = corpus.shapes(tier)
    if tier == 'quick':
        keep = {'alloc-put', 'alloc-put-newproj', 'alloc-delete',
                'inv-put-all-2', 'traits-put', 'aggs-put-new',
                'class-put-new', 'class-post-new', 'trait-put-new',
                'class-delete', 'trait-delete-unused'}
        shapes = [s for s in shapes if s.name in keep]
        return [make_family(s) for s in shapes]
    # the shapes with the most statements x data paths: two fault kinds
    # instead of four, and near-duplicates of them left out (each is covered
    # fault-free by C04/C08/C10/C12 and with crashes by C18)
    heavy = {'reshape-move', 'alloc-put-anyversion'}
    skip = {'reshape-move-1.38-newattrs', 'alloc-post-anyversion',
            'alloc-post-2c-2classes', 'alloc-put-2p-2classes',
            'alloc-post-2c-newowner'}
    shapes = [s for s in shapes if s.name not in skip]
    fams = [make_family(s) for s in shapes if s.name not in heavy]
    pairs = {'alloc-put', 'aggs-put-new', 'inv-delete-all'}
    fams += [make_family(s, kinds=('deadlock', 'dberror'), budget=2)
             for s in shapes if s.name in pairs]
    fams += [make_family(s, kinds=('deadlock+rollback', 'dberror'))
             for s in shapes if s.name in heavy]
    return fams


if __name__ == '__main__':
    sys.exit(runner.run_check(
        'C17', families, level='fault_enumeration',
        functions=corpus.ALLOC_FUNCS + corpus.INV_FUNCS + [
            'oslo_db.api.wrap_db_retry (real)',
            'placement.fault_wrap.FaultWrapper'],
        assumptions=['fault model: an exception raised in place of the '
                     'k-th statement; "deadlock+rollback" additionally '
                     'resets the transaction to the committed state before '
                     'raising, the session stays usable (MySQL deadlock '
                     'victim); faults inside commit and connection loss '
                     'between retries are outside the claim'],
        quick_budget=420, thorough_budget=2400))
