"""C04 — rejected writes leave no trace; multi-entity writes are
all-or-nothing (DESIGN 5/C04)."""
import sys
import z3

from engine import runner, symdb
from engine.runner import obligation
from engine.scenario import rel_diff, CORE_TABLES
from checks import corpus


def no_trace(ctx, shape, w, pre, post, r):
    if r.status >= 400:
        d = rel_diff(pre, post, CORE_TABLES)
        obligation(ctx, 'rejected-leaves-no-trace', symdb.zbool(d),
                   'status %d but providers/inventories/allocations/'
                   'consumers/associations/generations differ' % r.status,
                   sig='%d' % r.status)
        if r.status >= 500:
            runner.violation(ctx, 'no-5xx', 'status %d' % r.status,
                             sig='%d' % r.status)


def families(tier):
    return [corpus.make_family(s, [no_trace]) for s in corpus.shapes(tier)]


if __name__ == '__main__':
    sys.exit(runner.run_check(
        'C04', families,
        functions=corpus.ALLOC_FUNCS + corpus.INV_FUNCS,
        assumptions=['pre-state: standard world of checks/corpus.py under '
                     'its stated invariant', 'see C01 assumptions']))
