"""C04 — rejected writes leave no trace; multi-entity writes are
all-or-nothing (DESIGN 5/C04)."""
import sys
import z3

from engine import runner, symdb
from engine.runner import obligation
from engine.scenario import rel_diff, CORE_TABLES
from checks import corpus


def no_trace(ctx, shape, w, pre, post, r):
    if r.status >= 400:
        d = rel_diff(pre, post, CORE_TABLES)
        obligation(ctx, 'rejected-leaves-no-trace', symdb.zbool(d),
                   'status %d but providers/inventories/allocations/'
                   'consumers/associations/generations differ' % r.status,
                   sig='%d' % r.status)
        if r.status >= 500:
            runner.violation(ctx, 'no-5xx', 'status %d' % r.status,
                             sig='%d' % r.status)


def families(tier):
    fams = [corpus.make_family(s, [no_trace]) for s in corpus.shapes(tier)]
    # all-or-nothing when the server-side retries are used up by a competing
    # provider write ([placement] allocation_conflict_retry_count = 1): the
    # write is either refused without trace or applied completely
    # (equivalent to a serial execution), over one and over several consumers
    from checks import c05, c07
    fams += [
        c07.make_family('conc/put_alloc+put_traits/retry=1',
                        [c07.claim(1, 1), c05.put_traits(2)], retry_count=1),
        c07.make_family('conc/post_alloc(2 consumers)+put_traits/retry=1',
                        [c07.post_claim(1, [4, 5]), c05.put_traits(2)],
                        retry_count=1),
    ]
    if tier == 'thorough':
        fams += [
            c07.make_family('conc/put_alloc+put_invs/retry=1',
                            [c07.claim(1, 1), c05.put_invs(2)],
                            retry_count=1),
            c07.make_family('conc/put_alloc+put_traits/retry=2',
                            [c07.claim(1, 1), c05.put_traits(2)],
                            retry_count=2),
        ]
    return fams


if __name__ == '__main__':
    sys.exit(runner.run_check(
        'C04', families,
        functions=corpus.ALLOC_FUNCS + corpus.INV_FUNCS,
        assumptions=['pre-state: standard world of checks/corpus.py under '
                     'its stated invariant', 'see C01 assumptions'],
        quick_budget=420, thorough_budget=2400))
