"""C05 — a write guarded by a provider generation succeeds only against that
generation (DESIGN 5/C05)."""
import sys
import z3

from engine import app, runner, symex
from engine.runner import Family, obligation, finish
from engine.scenario import World, U, CONS, AGG
from engine.symdb import And, Or, Not, zbool
from engine.symex import to_z3
from checks import conc, corpus
from checks.conc import Req

FUNCTIONS = corpus.INV_FUNCS + corpus.ALLOC_FUNCS + [
    'placement.objects.resource_provider.ResourceProvider.'
    'increment_generation (compare-and-swap UPDATE)',
    'oslo_db enginefacade transaction scopes (real)']
T1, T2 = 'CUSTOM_T1', 'CUSTOM_T2'


def build(ctx):
    w = World(ctx)
    for rc in ('VCPU', 'DISK_GB'):
        w.rc(rc)
    for t in (T1, T2):
        w.trait(t)
    w.agg(1)
    w.agg(2)
    w.project('proj')
    w.user('user')
    w.provider(1, generation=ctx.int('stored_gen', 0))
    w.provider(2, generation=0)
    w.inventory(1, 'VCPU', present=True, total=ctx.int('total', 1),
                reserved=0, min_unit=1, max_unit=ctx.int('max', 1),
                step_size=1, allocation_ratio=1.0)
    w.inventory(2, 'VCPU', present=True, total=8, reserved=0, min_unit=1,
                max_unit=8, step_size=1, allocation_ratio=1.0)
    w.has_trait(1, T1)
    w.in_agg(1, 1)
    b = ctx.bool('alloc_c2')
    w.allocation(2, 1, 'VCPU', present=b, used=ctx.int('used2', 1))
    w.consumer(2, present=b, generation=0)
    return w


def build_optinv(ctx):
    """as build(), but whether provider 1 has any inventory is symbolic"""
    w = World(ctx)
    for rc in ('VCPU', 'DISK_GB'):
        w.rc(rc)
    for t in (T1, T2):
        w.trait(t)
    w.agg(1)
    w.agg(2)
    w.project('proj')
    w.user('user')
    w.provider(1, generation=ctx.int('stored_gen', 0))
    w.provider(2, generation=0)
    w.inventory(1, 'VCPU', total=ctx.int('total', 1), reserved=0,
                min_unit=1, max_unit=ctx.int('max', 1), step_size=1,
                allocation_ratio=1.0)
    w.inventory(2, 'VCPU', present=True, total=8, reserved=0, min_unit=1,
                max_unit=8, step_size=1, allocation_ratio=1.0)
    w.has_trait(1, T1)
    w.in_agg(1, 1)
    return w


RP = '/resource_providers/' + U(1)


def put_invs_empty(n):
    """replace the inventories by none"""
    def fn(ctx, w):
        return app.call('PUT', RP + '/inventories', {
            'resource_provider_generation': ctx.int('g%d' % n),
            'inventories': {}}, version='1.36')
    return Req('put_invs_empty%d' % n, fn, gen='g%d' % n, provider=1)


def put_invs(n):
    def fn(ctx, w):
        return app.call('PUT', RP + '/inventories', {
            'resource_provider_generation': ctx.int('g%d' % n),
            'inventories': {'VCPU': {'total': ctx.int('new_total%d' % n, 1)}}},
            version='1.36')
    return Req('put_invs%d' % n, fn, gen='g%d' % n, provider=1)


def put_inv(n):
    def fn(ctx, w):
        return app.call('PUT', RP + '/inventories/VCPU', {
            'resource_provider_generation': ctx.int('g%d' % n),
            'total': ctx.int('new_total%d' % n, 1)}, version='1.36')
    return Req('put_inv%d' % n, fn, gen='g%d' % n, provider=1)


def put_traits(n):
    def fn(ctx, w):
        return app.call('PUT', RP + '/traits', {
            'resource_provider_generation': ctx.int('g%d' % n),
            'traits': [T2]}, version='1.36')
    return Req('put_traits%d' % n, fn, gen='g%d' % n, provider=1)


def put_aggs(n):
    def fn(ctx, w):
        return app.call('PUT', RP + '/aggregates', {
            'resource_provider_generation': ctx.int('g%d' % n),
            'aggregates': [AGG(2)]}, version='1.36')
    return Req('put_aggs%d' % n, fn, gen='g%d' % n, provider=1)


def reshape(n):
    def fn(ctx, w):
        return app.call('POST', '/reshaper', {
            'inventories': {U(1): {
                'resource_provider_generation': ctx.int('g%d' % n),
                'inventories': {'VCPU': {
                    'total': ctx.int('new_total%d' % n, 1)}}}},
            'allocations': {}}, version='1.36', roles='admin,service')
    return Req('reshape%d' % n, fn, gen='g%d' % n, provider=1)


def reshape_both(n):
    """reshaper naming provider 1 both in inventories and in a consumer's
    allocations (two loads of the same provider inside one request)"""
    def fn(ctx, w):
        return app.call('POST', '/reshaper', {
            'inventories': {U(1): {
                'resource_provider_generation': ctx.int('g%d' % n),
                'inventories': {'VCPU': {
                    'total': ctx.int('new_total%d' % n, 1)}}}},
            'allocations': {CONS(1): {
                'allocations': {U(1): {'resources': {
                    'VCPU': ctx.int('amt%d' % n, 1)}}},
                'project_id': 'proj', 'user_id': 'user',
                'consumer_generation': None}}},
            version='1.36', roles='admin,service')
    return Req('reshape_both%d' % n, fn, gen='g%d' % n, provider=1)


def post_inv(n):
    def fn(ctx, w):
        return app.call('POST', RP + '/inventories', {
            'resource_class': 'DISK_GB', 'total': ctx.int('disk%d' % n, 1)},
            version='1.36')
    return Req('post_inv%d' % n, fn, provider=1)


def delete_inv(n):
    def fn(ctx, w):
        return app.call('DELETE', RP + '/inventories/VCPU', version='1.36')
    return Req('delete_inv%d' % n, fn, provider=1)


def delete_traits(n):
    def fn(ctx, w):
        return app.call('DELETE', RP + '/traits', version='1.36')
    return Req('delete_traits%d' % n, fn, provider=1)


def put_alloc(n):
    def fn(ctx, w):
        return app.call('PUT', '/allocations/' + CONS(1), {
            'allocations': {U(1): {'resources': {
                'VCPU': ctx.int('amt%d' % n, 1)}}},
            'project_id': 'proj', 'user_id': 'user',
            'consumer_generation': None}, version='1.36')
    return Req('put_alloc%d' % n, fn, provider=1)


def gen_term(ctx, name):
    if getattr(ctx, 'concrete', False):
        return z3.IntVal(int(ctx.values.get(name, 0)))
    return ctx.vars[name]


def put_aggs_new(n):
    """PUT aggregates naming an aggregate that has no record yet (so that a
    duplicate-key race on its first recording can happen)"""
    def fn(ctx, w):
        return app.call('PUT', RP + '/aggregates', {
            'resource_provider_generation': ctx.int('g%d' % n),
            'aggregates': [AGG(7)]}, version='1.36')
    return Req('put_aggs_new%d' % n, fn, gen='g%d' % n, provider=1)


def make_family(name, reqs, fault_kinds=None, build=build):
    def path(ctx):
        app.setup()
        pre, results, final, sched, writes = conc.run_concurrent(
            ctx, build, reqs, fault_kinds=fault_kinds)
        ok = [i for i, r in enumerate(results) if r.status < 400]
        for a in ok:
            for b in ok:
                if a < b and reqs[a].gen and reqs[b].gen:
                    obligation(ctx, 'same-generation-one-winner',
                               gen_term(ctx, reqs[a].gen) ==
                               gen_term(ctx, reqs[b].gen),
                               '%s and %s both succeeded carrying the same '
                               'provider generation' % (reqs[a].name,
                                                        reqs[b].name),
                               sig='%s+%s' % (reqs[a].name, reqs[b].name))
        for i in ok:
            if not reqs[i].gen:
                continue
            ws = [x for x in writes[i] if 'resource_providers' in x['tables']]
            if not ws:
                continue
            pg = ws[-1]['pgen']
            obligation(ctx, 'success-carried-current-generation',
                       gen_term(ctx, reqs[i].gen) != to_z3(pg),
                       '%s was applied although the generation it carried '
                       'was not the provider\'s when its changes were '
                       'committed' % reqs[i].name, sig=reqs[i].name)
        for i, r in enumerate(results):
            if r.status >= 500:
                runner.violation(ctx, 'no-5xx', '%s: %d %s' % (
                    reqs[i].name, r.status, (r.error_detail or '')[:200]),
                    sig=reqs[i].name)
            if r.status == 409 and reqs[i].gen:
                # a generation conflict carries the documented error code
                d = (r.error_detail or '')
                if 'generation' in d.lower() and \
                        r.error_code != 'placement.concurrent_update':
                    runner.violation(ctx, 'conflict-error-code',
                                     '%s: 409 with code %s' % (
                                         reqs[i].name, r.error_code),
                                     sig=reqs[i].name)
        conc.check_serializable(ctx, build, reqs, results, final)
        return finish(ctx, ','.join(str(r.status) for r in results),
                      info=dict(points=sched.points))
    return Family(name, path, conformance=not (
        fault_kinds and 'deadlock+rollback' in fault_kinds), bounds=dict(
        requests=[r.name for r in reqs], provider='one provider, stored and '
        'supplied generations symbolic (equal or not, stale or not)'))


def families(tier):
    fams = [
        make_family('put_invs+put_invs', [put_invs(1), put_invs(2)]),
        make_family('put_invs+put_traits', [put_invs(1), put_traits(2)]),
        make_family('put_traits+put_aggs', [put_traits(1), put_aggs(2)]),
        make_family('put_invs+put_alloc', [put_invs(1), put_alloc(2)]),
        make_family('put_aggs+put_aggs', [put_aggs(1), put_aggs(2)]),
        # every guarded route at least once in the quick tier
        make_family('put_inv+put_aggs', [put_inv(1), put_aggs(2)]),
        make_family('reshape_both+put_invs', [reshape_both(1), put_invs(2)]),
        # a retried write (duplicate-key race while an aggregate is first
        # recorded) with another guarded write committing in between
        make_family('put_aggs_new+put_aggs/duplicate',
                    [put_aggs_new(1), put_aggs(2)], fault_kinds=('duplicate',)),
        # a write that changes nothing (no inventory before, none after)
        # is still a guarded write
        make_family('optinv/put_invs_empty+put_traits',
                    [put_invs_empty(1), put_traits(2)], build=build_optinv),
    ]
    if tier == 'thorough':
        fams += [
            make_family('optinv/put_invs_empty+put_aggs',
                        [put_invs_empty(1), put_aggs(2)], build=build_optinv),
            make_family('optinv/put_invs_empty+put_invs_empty',
                        [put_invs_empty(1), put_invs_empty(2)],
                        build=build_optinv),
            make_family('optinv/put_invs+put_invs',
                        [put_invs(1), put_invs(2)], build=build_optinv),
            make_family('put_inv+delete_traits', [put_inv(1),
                                                  delete_traits(2)]),
            make_family('reshape+put_invs', [reshape(1), put_invs(2)]),
            make_family('put_traits+put_traits', [put_traits(1),
                                                  put_traits(2)]),
            make_family('post_inv+put_invs', [post_inv(1), put_invs(2)]),
            make_family('delete_inv+put_alloc', [delete_inv(1),
                                                 put_alloc(2)]),
            make_family('put_inv+put_alloc', [put_inv(1), put_alloc(2)]),
            make_family('reshape+put_alloc', [reshape(1), put_alloc(2)]),
            make_family('put_aggs_new+put_traits/duplicate',
                        [put_aggs_new(1), put_traits(2)],
                        fault_kinds=('duplicate',)),
            make_family('put_aggs_new+put_invs/duplicate',
                        [put_aggs_new(1), put_invs(2)],
                        fault_kinds=('duplicate',)),
            make_family('put_invs+put_traits+put_aggs',
                        [put_invs(1), put_traits(2), put_aggs(3)]),
        ]
    return fams


if __name__ == '__main__':
    sys.exit(runner.run_check(
        'C05', families, functions=FUNCTIONS,
        assumptions=['each transaction atomic and isolated; pre-emption only '
                     'between transactions; interleavings enumerated as '
                     'paths, generations/numbers symbolic within each'],
        quick_budget=420, thorough_budget=2400))
