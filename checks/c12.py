"""C12 — consumers exist exactly while they hold allocations (DESIGN 5/C12)."""
import sys

from engine import runner
from checks import corpus, asserts


def fam_first_write_dies():
    """the first write for a new consumer dies on a database error inside the
    allocation-writing statements: afterwards the consumer exists iff it has
    allocations, and a write carrying consumer_generation null is accepted"""
    from engine import app, inject, symex
    from engine.runner import Family, finish, obligation
    from engine.scenario import U, CONS
    import sqlalchemy as sa

    def only(stmt):
        return inject.is_dml(stmt) and stmt.table.name in (
            'allocations', 'resource_providers', 'inventories')

    def path(ctx):
        app.setup()
        with corpus.std_world(ctx, c1='absent') as w:
            hook, un = inject.install_faults(w, kinds=('dberror',),
                                             only=only)
            body = {'allocations': {U(1): {'resources': {
                'VCPU': ctx.int('amt', 1)}}}, 'project_id': 'proj',
                'user_id': 'user', 'consumer_generation': None}
            try:
                r = app.call('PUT', '/allocations/' + CONS(1), body,
                             version='1.36')
            finally:
                un()
            if not hook.injected:
                return finish(ctx, 'no-fault:%d' % r.status)
            pre = post = w.dump()
            asserts.consumer_iff_allocations(ctx, corpus.Shape(
                'first-write-dies', None, kind='alloc'), w, pre, post, r)
            again = app.call('PUT', '/allocations/' + CONS(1), body,
                             version='1.36')
            if again.status == 409 and 'generation' in (
                    again.error_detail or ''):
                runner.violation(ctx, 'creatable-after-failed-first-write',
                                 'after a first write that died (%d) a write '
                                 'with consumer_generation null is refused: '
                                 '%s' % (r.status, again.error_detail[:120]))
            return finish(ctx, 'fault:%d,%d' % (r.status, again.status))
    return Family('first-write-dies', path, bounds=dict(
        fault='one generic database error at any INSERT/UPDATE/DELETE on '
        'allocations / resource_providers of the first write'))


def families(tier):
    return [corpus.make_family(s, [asserts.consumer_iff_allocations, asserts.consumer_attributes, asserts.no_5xx,
                                    asserts.attributes_only_by_success,
                                    asserts.recreatable])
            for s in corpus.shapes(tier)] + [fam_first_write_dies()]


if __name__ == '__main__':
    sys.exit(runner.run_check(
        'C12', families,
        functions=corpus.ALLOC_FUNCS + corpus.INV_FUNCS,
        assumptions=['pre-state: standard world of checks/corpus.py under '
                     'its stated invariant (allocation => inventory, '
                     'consumer row <=> allocations)',
                     'see DESIGN.md 3.4 for shims, 3.2 for arithmetic'],
        quick_budget=420, thorough_budget=2400))
