"""Shared harness for the concurrency checks C05, C06, C07: requests run as
greenlets through the full WSGI stack against one database, pre-empted at
transaction granularity under an interleaving chosen by the explorer; on
each terminal path the data (generations, amounts, inventories) is symbolic.
"""
import itertools

import z3

from engine import app, runner, symex, inject, symdb
from engine.runner import obligation
from engine.scenario import rel_diff, CORE_TABLES, U, CONS
from engine.symdb import And, Or, Not, zbool
from engine.symex import to_z3, Sym


class Req:
    def __init__(self, name, fn, gen=None, provider=None, consumer=None,
                 cgen=None, kind=''):
        self.name = name
        self.fn = fn                # (ctx, w) -> Response
        self.gen = gen              # name of the supplied provider generation
        self.provider = provider    # provider number it guards
        self.consumer = consumer
        self.cgen = cgen            # name of supplied consumer generation var
        self.kind = kind


def _committed_provider_gen(session, pid):
    if hasattr(session, 'db'):
        for r in session.db.committed.tables['resource_providers']:
            if r.vals['id'] == pid and r.present is True:
                return r.vals['generation']
        return None
    row = session.connection().exec_driver_sql(
        'select generation from resource_providers where id=%d' % pid
    ).fetchone()
    return row[0] if row else None


def _committed_consumer(session, uuid):
    """(present, generation) of the consumer in the committed state"""
    if hasattr(session, 'db'):
        rows = [r for r in session.db.committed.tables['consumers']
                if r.vals['uuid'] == uuid and r.present is not False]
        if not rows:
            return (False, None)
        pres = Or(*[r.present for r in rows])
        gen = rows[0].vals['generation']
        for r in rows[1:]:
            gen = symdb.sym_ite(r.present, r.vals['generation'], gen)
        return (pres, gen)
    row = session.connection().exec_driver_sql(
        "select generation from consumers where uuid='%s'" % uuid).fetchone()
    return (True, row[0]) if row else (False, None)


def run_concurrent(ctx, world_fn, reqs, watch_provider=1, watch_consumer=1,
                   fault_kinds=None, max_preemptions=None, contended=None):
    """returns (pre, results, final, sched, writes) where writes[i] is the
    list of observations made at the start of request i's transactions that
    later committed changes"""
    with world_fn(ctx) as w:
        pre = w.dump()
        if fault_kinds:
            sched, fh, un = inject.install_scheduler_and_faults(
                w, fault_kinds)
            sched.faults = fh
        else:
            sched, un = inject.install_scheduler(w) if contended is None \
                else inject.install_scheduler(w, contended)
        starts = {}
        writes = {i: [] for i in range(len(reqs))}

        def observe(i, session, ev):
            if i is None:
                return
            if ev == 'txn-start':
                starts[id(session)] = dict(
                    pgen=_committed_provider_gen(session, watch_provider),
                    cons=_committed_consumer(session, CONS(watch_consumer)))
            elif ev == 'commit':
                if hasattr(session, 'db'):
                    tables = set(session.writes)
                else:
                    tables = set(session.info.get('verif_writes', ()))
                if tables and id(session) in starts:
                    st = dict(starts[id(session)])
                    st['tables'] = tables
                    writes[i].append(st)
        sched.observe = observe
        sched.max_preemptions = max_preemptions
        try:
            results = sched.run([(lambda r=r: r.fn(ctx, w)) for r in reqs])
        finally:
            un()
        final = w.dump()
    return pre, results, final, sched, writes


def run_serial(ctx, world_fn, reqs, order):
    with world_fn(ctx) as w:
        out = {}
        for i in order:
            out[i] = reqs[i].fn(ctx, w)
        return out, w.dump()


def check_serializable(ctx, world_fn, reqs, results, final, tables=CORE_TABLES,
                       clause='serializable'):
    """The successful requests are equivalent to executing them one after
    another in some order (each succeeding there too), failed requests
    contribute nothing."""
    ok = [i for i, r in enumerate(results) if r.status < 400]
    alts = []
    tried = []
    for order in itertools.permutations(ok):
        res, fin = run_serial(ctx, world_fn, reqs, order)
        if all(res[i].status < 400 for i in order):
            d = rel_diff(final, fin, tables)
            alts.append(Not(d))
            tried.append(order)
    names = [reqs[i].name for i in ok]
    obligation(ctx, clause, zbool(Not(Or(*alts))),
               'requests answered with success %s: the final state equals no '
               'serial execution of exactly those requests in which all of '
               'them succeed (orders in which all succeed: %s)' % (
                   names, tried),
               sig='%s' % '+'.join(sorted(names)))


def error_code_ok(ctx, r, name):
    if r.status == 409:
        return
    return
