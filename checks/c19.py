"""C19 — standard traits/classes always present and immutable; custom ones
namespaced (DESIGN 5/C19)."""
import sys
import urllib.parse
import z3

from engine import app, runner, symex, rex, symdb
from engine.runner import Family, obligation, finish
from engine.scenario import World, rel_diff
from engine.symdb import And, Or, Not, zbool
from engine.symex import to_z3

from placement.objects import trait as trait_obj
from placement.objects import resource_class as rc_obj

FUNCTIONS = [
    'placement.schemas.common.*PATTERN (regex -> z3 Re, Python $ semantics)',
    'placement.handlers.resource_class.*', 'placement.handlers.trait.*',
    'placement.objects.resource_class.ResourceClass.create/_create_in_db/'
    '_get_next_id/destroy/save', 'placement.objects.resource_class.'
    '_resource_classes_sync/ensure_sync',
    'placement.objects.trait.Trait.create/destroy',
    'placement.objects.trait._trait_sync/ensure_sync',
]
MIN_CUSTOM = 10000


def charset():
    return z3.Union(z3.Range('A', 'Z'), z3.Range('0', '9'), z3.Re('_'))


def fam_names():
    """(a) the language of names the API lets through"""
    def path(ctx):
        app.setup()
        from placement.schemas import resource_class as rcs, trait as ts
        spec = z3.Concat(z3.Re('CUSTOM_'), z3.Plus(charset()))
        cases = [
            ('POST /resource_classes', rcs.POST_RC_SCHEMA_V1_2['properties']
             ['name'], 'post_rc'),
            ('PUT /resource_classes/{name}', rcs.PUT_RC_SCHEMA_V1_2
             ['properties']['name'], 'put_rc'),
            ('PUT /traits/{name}', ts.CUSTOM_TRAIT, 'put_trait'),
        ]
        with World(ctx) as w:
            w.rc('VCPU')
            w.trait('HW_CPU_X86_AVX')
            for what, sch, kind in cases:
                ml = sch.get('maxLength')
                ctx.data['obligations'] = ctx.data.get('obligations', 0) + 1
                if ml is None or ml > 255:
                    runner.violation(ctx, 'name-length',
                                     '%s: maxLength is %r' % (what, ml))
                r, wit = rex.included(rex.search_language(sch['pattern']),
                                      spec, max_len=ml)
                ctx.nq += 1
                if r == 'unsat':
                    ctx.data['discharged'] = ctx.data.get('discharged', 0) + 1
                    continue
                if r == 'unknown':
                    ctx.data.setdefault('violations', []).append(dict(
                        clause='name-language', kind='unknown', values=None,
                        desc='regex inclusion undecided', sig=kind))
                    continue
                name = rex.unescape(wit)
                if kind == 'post_rc':
                    resp = app.call('POST', '/resource_classes',
                                    {'name': name})
                elif kind == 'put_rc':
                    resp = app.call('PUT', '/resource_classes/' +
                                    urllib.parse.quote(name, safe=''))
                else:
                    resp = app.call('PUT', '/traits/' +
                                    urllib.parse.quote(name, safe=''))
                post = w.dump()
                table = 'traits' if kind == 'put_trait' else \
                    'resource_classes'
                stored = [r2.vals['name'] for r2 in post[table]
                          if r2.present is True]
                ctx.notes.append('%s %r -> %d' % (what, name, resp.status))
                if name in stored:
                    runner.violation(
                        ctx, 'name-language',
                        '%s (answered %d) stored the name %r, which is not '
                        'CUSTOM_ followed by A-Z, 0-9, _ only' %
                        (what, resp.status, name), sig=kind)
                else:
                    # the pattern lets it through but a later stage rejects
                    ctx.data['discharged'] = ctx.data.get('discharged', 0) + 1
            return finish(ctx, 'names')
    return Family('names-language', path,
                  bounds=dict(strings='all strings up to maxLength (regex '
                              'inclusion decided by z3 seq/re theory)'))


HOSTILE = [
    'CUSTOM_A"', 'CUSTOM_A\\', 'CUSTOM_x", "name": "CUSTOM_A',
    'CUSTOM_x","name":"CUSTOM_B', 'CUSTOM_A\\u0041', 'CUSTOM_A\\n',
    'CUSTOM_A\n', 'CUSTOM_A\r', 'CUSTOM_A\t', 'CUSTOM_A ', ' CUSTOM_A',
    'CUSTOM_a', 'custom_A', 'CUSTOM_', 'CUSTOM', 'CUSTOM_A-B', 'CUSTOM_A.B',
    'CUSTOM_A/B', 'CUSTOM_A%41', 'CUSTOM_\u00c4', 'CUSTOM_A\x00',
    'CUSTOM_' + 'A' * 249, 'CUSTOM_' + 'A' * 248, 'CUSTOM_A"}', '{"name":1}',
    'CUSTOM_A", "x": "y', 'VCPU", "name": "CUSTOM_A',
]


def fam_hostile_names():
    """(a') the pattern is applied to whatever the handler hands to the
    validator, which need not be the name it stores: a catalogue of hostile
    names goes through every name-taking route and whatever is stored must be
    in the language (finite catalogue, enumerated as decisions)"""
    import re
    LANG = re.compile(r'CUSTOM_[A-Z0-9_]{1,248}\Z')
    routes = ['post_rc', 'put_rc', 'put_rc_1.6', 'put_trait', 'put_rp_traits']

    def path(ctx):
        app.setup()
        name = HOSTILE[symex.choose(len(HOSTILE))]
        kind = routes[symex.choose(len(routes))]
        q = urllib.parse.quote(name, safe='')
        with World(ctx) as w:
            w.rc('VCPU')
            w.rc('CUSTOM_OLD', 10000)
            w.trait('HW_CPU_X86_AVX')
            w.provider(1, generation=0)
            if kind == 'post_rc':
                r = app.call('POST', '/resource_classes', {'name': name})
            elif kind == 'put_rc':
                r = app.call('PUT', '/resource_classes/' + q)
            elif kind == 'put_rc_1.6':
                r = app.call('PUT', '/resource_classes/CUSTOM_OLD',
                             {'name': name}, version='1.6')
            elif kind == 'put_trait':
                r = app.call('PUT', '/traits/' + q)
            else:
                r = app.call('PUT', '/resource_providers/%s/traits' % (
                    '00000001-1111-1111-1111-111111111111'),
                    {'resource_provider_generation': 0, 'traits': [name]})
            post = w.dump()
            ctx.data['obligations'] = ctx.data.get('obligations', 0) + 1
            bad = []
            for t in ('resource_classes', 'traits'):
                for row in post[t]:
                    n = row.vals['name']
                    if row.present is True and n.startswith(('CUSTOM', 'custom', ' ')) \
                            and not LANG.match(n):
                        bad.append((t, n))
                    if row.present is True and not n.startswith('CUSTOM') and \
                            n not in ('VCPU', 'HW_CPU_X86_AVX'):
                        bad.append((t, n))
            if r.status >= 500:
                runner.violation(ctx, 'no-5xx', '%s with %r: %d' % (
                    kind, name, r.status), sig=kind)
            if bad:
                runner.violation(ctx, 'name-language',
                                 '%s with %r (answered %d) stored %r' % (
                                     kind, name, r.status, bad), sig=kind)
            else:
                ctx.data['discharged'] = ctx.data.get('discharged', 0) + 1
            return finish(ctx, '%s:%d' % (kind, r.status))
    return Family('names-hostile-catalogue', path, bounds=dict(
        names=len(HOSTILE), routes=routes,
        note='finite catalogue, plain enumeration'))


def rc_world(ctx, ncustom=2):
    w = World(ctx)
    for rc in ('VCPU', 'MEMORY_MB', 'DISK_GB'):
        w.rc(rc)
    ids = []
    for i in range(ncustom):
        cid = ctx.int('custom_id_%d' % i, MIN_CUSTOM)
        pres = ctx.bool('custom_present_%d' % i)
        w.backend.add('resource_classes', present=pres, id=cid,
                      name='CUSTOM_OLD%d' % i)
        ids.append((pres, cid))
    for i in range(len(ids)):
        for j in range(i):
            ctx.assume(z3.Or(z3.Not(zbool(ids[i][0])), z3.Not(zbool(ids[j][0])),
                             to_z3(ids[i][1]) != to_z3(ids[j][1]))
                       if not getattr(ctx, 'concrete', False) else True)
    w.custom_ids = ids
    return w


def fam_rc_create(method):
    def path(ctx):
        app.setup()
        with rc_world(ctx) as w:
            pre = w.dump()
            which = symex.choose(2)
            name = 'CUSTOM_NEW' if which == 0 else 'CUSTOM_OLD0'
            if method == 'POST':
                r = app.call('POST', '/resource_classes', {'name': name})
            else:
                r = app.call('PUT', '/resource_classes/' + name)
            post = w.dump()
            rows = [x for x in post['resource_classes']
                    if x.vals['name'] == name]
            pres = Or(*[x.present for x in rows])
            existed = Or(*[x.present for x in pre['resource_classes']
                           if x.vals['name'] == name])
            # never a duplicate: at most one present row per name
            for i in range(len(rows)):
                for j in range(i):
                    obligation(ctx, 'no-duplicate-name',
                               zbool(And(rows[i].present, rows[j].present)),
                               'two rows for %s' % name)
            if r.status in (201, 204):
                obligation(ctx, 'created-or-verified', zbool(Not(pres)),
                           '%d but %s is not stored' % (r.status, name))
                if r.status == 201:
                    obligation(ctx, 'idempotent-create', zbool(existed),
                               '201 for a name that already existed')
                for x in rows:
                    nid = to_z3(x.vals['id'])
                    obligation(ctx, 'custom-id-range',
                               z3.And(zbool(x.present), nid < MIN_CUSTOM),
                               'custom class got id < %d' % MIN_CUSTOM)
                    for y in post['resource_classes']:
                        if y is x:
                            continue
                        obligation(ctx, 'custom-id-unique', z3.And(
                            zbool(x.present), zbool(y.present),
                            nid == to_z3(y.vals['id'])),
                            'new class id collides with %s' % y.vals['name'])
            elif r.status == 409:
                obligation(ctx, 'idempotent-create', zbool(Not(existed)),
                           '409 for a name that did not exist')
                obligation(ctx, 'rejection-changes-nothing',
                           zbool(rel_diff(pre, post, ('resource_classes',))),
                           '409 changed the resource classes')
            else:
                runner.violation(ctx, 'status', 'status %d' % r.status,
                                 sig=str(r.status))
            return finish(ctx, '%s:%d' % (method, r.status))
    return Family('rc-create-%s' % method, path,
                  bounds=dict(custom_rows=2, ids='symbolic >= 10000, '
                              'pairwise distinct when both present'))


def fam_std_immutable():
    reqs = [
        ('DELETE', '/resource_classes/VCPU', None, '1.39', 400),
        ('PUT', '/resource_classes/VCPU', {'name': 'CUSTOM_X'}, '1.6', 400),
        ('PUT', '/resource_classes/CUSTOM_OLD', {'name': 'VCPU'}, '1.6',
         400),
        ('PUT', '/resource_classes/VCPU', None, '1.7', 400),
        ('POST', '/resource_classes', {'name': 'VCPU'}, '1.39', 400),
        ('DELETE', '/traits/HW_CPU_X86_AVX', None, '1.39', 400),
        ('PUT', '/traits/HW_CPU_X86_AVX', None, '1.39', 400),
        ('PUT', '/traits/HW_NEW_THING', None, '1.39', 400),
        ('DELETE', '/resource_classes/CUSTOM_OLD', None, '1.39', 204),
        ('DELETE', '/traits/CUSTOM_T', None, '1.39', 204),
        ('PUT', '/traits/CUSTOM_T', None, '1.39', 204),
        ('PUT', '/traits/CUSTOM_T2', None, '1.39', 201),
    ]

    def path(ctx):
        app.setup()
        k = symex.choose(len(reqs))
        method, url, body, ver, want = reqs[k]
        with World(ctx) as w:
            for rc in ('VCPU', 'MEMORY_MB'):
                w.rc(rc)
            w.rc('CUSTOM_OLD', 10000)
            w.trait('HW_CPU_X86_AVX')
            w.trait('CUSTOM_T')
            pre = w.dump()
            r = app.call(method, url, body, version=ver)
            post = w.dump()
            if r.status != want:
                runner.violation(ctx, 'status', '%s %s: %d, expected %d' % (
                    method, url, r.status, want), sig='%s %s' % (method, url))
            if r.status >= 400:
                obligation(ctx, 'rejection-changes-nothing', zbool(rel_diff(
                    pre, post, ('resource_classes', 'traits'))),
                    '%s %s changed the catalogue' % (method, url))
            for t, names in (('resource_classes', ['VCPU', 'MEMORY_MB']),
                             ('traits', ['HW_CPU_X86_AVX'])):
                have = [x.vals['name'] for x in post[t] if x.present is True]
                for n in names:
                    if have.count(n) != 1:
                        runner.violation(ctx, 'standard-immutable',
                                         'standard %s %s is gone or '
                                         'duplicated' % (t, n))
            return finish(ctx, '%s:%d' % (method, r.status))
    return Family('standard-immutable', path, bounds=dict(requests=len(reqs)))


def fam_sync():
    """(c) start-up synchronisation from partially synchronised tables"""
    STD_TRAITS = ['HW_A', 'HW_B', 'STORAGE_C', 'MISC_D']
    STD_RCS = ['VCPU', 'MEMORY_MB', 'DISK_GB', 'PCI_DEVICE']

    def path(ctx):
        app.setup()
        import os_traits
        import os_resource_classes as orc
        real_get, real_std = os_traits.get_traits, orc.STANDARDS
        os_traits.get_traits = lambda *a, **k: list(STD_TRAITS)
        orc.STANDARDS = list(STD_RCS)
        try:
            with World(ctx) as w:
                for i, n in enumerate(STD_RCS):
                    w.backend.add('resource_classes',
                                  present=ctx.bool('have_rc_%d' % i), id=i,
                                  name=n)
                w.backend.add('resource_classes',
                              present=ctx.bool('have_custom_rc'), id=10000,
                              name='CUSTOM_FOO')
                for i, n in enumerate(STD_TRAITS):
                    w.backend.add('traits', present=ctx.bool('have_tr_%d' % i),
                                  id=i + 1, name=n)
                w.backend.add('traits', present=ctx.bool('have_custom_tr'),
                              id=50, name='CUSTOM_BAR')
                if not w.concrete:
                    w.db.committed.next_id['traits'] = 100
                from placement import db_api
                for rnd in (1, 2):
                    trait_obj._TRAITS_SYNCED = False
                    rc_obj._RESOURCE_CLASSES_SYNCED = False
                    before = w.dump()
                    c = db_api.DbContext()
                    trait_obj.ensure_sync(c)
                    rc_obj.ensure_sync(c)
                    after = w.dump()
                    for i, n in enumerate(STD_RCS):
                        rows = [x for x in after['resource_classes']
                                if x.vals['name'] == n]
                        obligation(ctx, 'standard-present', zbool(Not(Or(
                            *[x.present for x in rows]))),
                            'class %s missing after sync' % n)
                        for x in rows:
                            obligation(ctx, 'standard-class-id', z3.And(
                                zbool(x.present),
                                to_z3(x.vals['id']) != i),
                                'class %s has id != %d' % (n, i))
                        for a in range(len(rows)):
                            for b in range(a):
                                obligation(ctx, 'no-duplicate-name', zbool(And(
                                    rows[a].present, rows[b].present)),
                                    'class %s twice' % n)
                    for n in STD_TRAITS:
                        rows = [x for x in after['traits']
                                if x.vals['name'] == n]
                        obligation(ctx, 'standard-present', zbool(Not(Or(
                            *[x.present for x in rows]))),
                            'trait %s missing after sync' % n)
                        for a in range(len(rows)):
                            for b in range(a):
                                obligation(ctx, 'no-duplicate-name', zbool(And(
                                    rows[a].present, rows[b].present)),
                                    'trait %s twice' % n)
                    if rnd == 2:
                        obligation(ctx, 'sync-idempotent', zbool(rel_diff(
                            before, after, ('resource_classes', 'traits'))),
                            'second synchronisation changed the tables')
                    for t, n in (('resource_classes', 'CUSTOM_FOO'),
                                 ('traits', 'CUSTOM_BAR')):
                        obligation(ctx, 'sync-keeps-custom', zbool(rel_diff(
                            {t: [x for x in before[t] if x.vals['name'] == n]},
                            {t: [x for x in after[t] if x.vals['name'] == n]},
                            (t,))), 'sync changed custom %s' % n)
                return finish(ctx, 'sync')
        finally:
            os_traits.get_traits, orc.STANDARDS = real_get, real_std
            trait_obj._TRAITS_SYNCED = True
            rc_obj._RESOURCE_CLASSES_SYNCED = True
    return Family('startup-sync', path,
                  bounds=dict(standard_traits=4, standard_classes=4,
                              note='os_traits.get_traits / orc.STANDARDS '
                              'replaced by 4-symbol lists; presence of every '
                              'row symbolic'))


def fam_sync_faults(entry='parts'):
    """entry='parts': the two synchronisation functions called one after the
    other (each judged on its own); entry='deploy': the service's real
    start-up function placement.deploy.update_database, which stops at the
    first failure and is called again by the next start-up attempt.

    start-up synchronisation hit by a database fault at any of its
    statements, followed by the next start-up synchronisation of the same
    process (flags are NOT reset in between): a sync that returns normally
    has done its work exactly once; one that failed changed nothing; and the
    next one completes the job."""
    from engine import inject
    STD_TRAITS = ['HW_A', 'HW_B', 'MISC_D']
    STD_RCS = ['VCPU', 'MEMORY_MB', 'DISK_GB']

    def check_all_present(ctx, state, when):
        for i, n in enumerate(STD_RCS):
            rows = [x for x in state['resource_classes']
                    if x.vals['name'] == n]
            obligation(ctx, 'standard-present', zbool(Not(Or(
                *[x.present for x in rows]))),
                'class %s missing %s' % (n, when), sig=when)
            for x in rows:
                obligation(ctx, 'standard-class-id', z3.And(
                    zbool(x.present), to_z3(x.vals['id']) != i),
                    'class %s has id != %d %s' % (n, i, when), sig=when)
        for n in STD_TRAITS:
            rows = [x for x in state['traits'] if x.vals['name'] == n]
            obligation(ctx, 'standard-present', zbool(Not(Or(
                *[x.present for x in rows]))),
                'trait %s missing %s' % (n, when), sig=when)

    class _Conf:
        class placement_database:
            sync_on_startup = False     # schema migrations are not the subject

    def path(ctx):
        app.setup()
        import os_traits
        import os_resource_classes as orc
        from placement import db_api, deploy
        real_get, real_std = os_traits.get_traits, orc.STANDARDS
        os_traits.get_traits = lambda *a, **k: list(STD_TRAITS)
        orc.STANDARDS = list(STD_RCS)
        try:
            with World(ctx) as w:
                for i, n in enumerate(STD_RCS):
                    w.backend.add('resource_classes',
                                  present=ctx.bool('have_rc_%d' % i), id=i,
                                  name=n)
                for i, n in enumerate(STD_TRAITS):
                    w.backend.add('traits', present=ctx.bool('have_tr_%d' % i),
                                  id=i + 1, name=n)
                if not w.concrete:
                    w.db.committed.next_id['traits'] = 100
                trait_obj._TRAITS_SYNCED = False
                rc_obj._RESOURCE_CLASSES_SYNCED = False
                pre = w.dump()
                hook, un = inject.install_faults(
                    w, kinds=('deadlock', 'deadlock+rollback', 'dberror',
                              'commit-deadlock', 'commit-dberror'))
                failed = []
                aborted = False
                try:
                    if entry == 'deploy':
                        try:
                            deploy.update_database(_Conf)
                        except symex.EngineSignal:
                            raise
                        except Exception:
                            aborted = True
                    else:
                        for what, fn in (('traits', trait_obj.ensure_sync),
                                         ('classes', rc_obj.ensure_sync)):
                            try:
                                fn(db_api.DbContext())
                            except symex.EngineSignal:
                                raise
                            except Exception as e:
                                failed.append(what)
                finally:
                    un()
                mid = w.dump()
                if not hook.injected:
                    return finish(ctx, 'no-fault')
                kind = '%s@%s' % (hook.injected[0][1], hook.injected[0][2])
                if not failed and not aborted:
                    check_all_present(ctx, mid, 'after a sync that returned '
                                      'normally (%s)' % kind.split('@')[0])
                for what in failed:
                    t = 'traits' if what == 'traits' else 'resource_classes'
                    obligation(ctx, 'failed-sync-changes-nothing', zbool(
                        rel_diff(pre, mid, (t,))),
                        'sync of %s failed but changed the table' % what)
                # the next start-up synchronisation of the same process
                if entry == 'deploy':
                    deploy.update_database(_Conf)
                else:
                    for fn in (trait_obj.ensure_sync, rc_obj.ensure_sync):
                        fn(db_api.DbContext())
                after = w.dump()
                check_all_present(ctx, after, 'after the following start-up '
                                  'synchronisation')
                return finish(ctx, 'fault:%s:%s' % (
                    kind.split('@')[0],
                    'failed' if failed or aborted else 'ok'))
        finally:
            os_traits.get_traits, orc.STANDARDS = real_get, real_std
            trait_obj._TRAITS_SYNCED = True
            rc_obj._RESOURCE_CLASSES_SYNCED = True
    return Family('startup-sync-faults' + (
        '' if entry == 'parts' else '/update_database'), path, bounds=dict(
        standard_traits=3, standard_classes=3, faults='one fault (deadlock, '
        'deadlock after rollback, generic error) at any statement of the '
        'first synchronisation', presence='every row symbolic'))


def families(tier):
    return [fam_names(), fam_sync_faults(), fam_sync_faults('deploy'),
            fam_hostile_names(), fam_rc_create('POST'), fam_rc_create('PUT'),
            fam_std_immutable(), fam_sync()]


if __name__ == '__main__':
    sys.exit(runner.run_check(
        'C19', families, functions=FUNCTIONS,
        assumptions=['regex translation follows Python re.search semantics '
                     '(engine/rex.py); witnesses are replayed through the '
                     'real API', 'sync: library symbol lists bounded to 4'],
    ))
