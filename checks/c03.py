"""C03 — allocation candidates are exactly the combinations the request
describes (DESIGN 5/C03 and Appendix B)."""
import sys
import z3

from engine import app, runner, symex
from engine.runner import Family, obligation, finish
from engine.symdb import And, Or, Not, zbool
from checks import cands
from checks.cands import Topo, Group, Query, T1, T2

FUNCTIONS = [
    'placement.handlers.allocation_candidate.list_allocation_candidates',
    'placement.lib.RequestGroup.dict_from_request',
    'placement.lib.RequestWideParams.from_request',
    'placement.util.normalize_*_qs_param*',
    'placement.objects.allocation_candidate.*',
    'placement.objects.research_context.*',
    'placement.objects.rp_candidates.*',
    'placement.objects.trait.get_traits_by_provider_tree/ids_from_names',
]

FLAT = Topo('flat', {1: None, 2: None, 3: None},
            invs=[(1, 'VCPU'), (2, 'VCPU'), (1, 'DISK_GB'), (3, 'DISK_GB')],
            aggs=[(1, 1), (2, 1), (3, 1)], sharing=[3])
TREE = Topo('tree', {1: None, 2: 1, 3: 1, 4: None},
            invs=[(2, 'VCPU'), (3, 'VCPU'), (1, 'DISK_GB'), (4, 'DISK_GB')],
            aggs=[(1, 1), (4, 1)], sharing=[4])
TWO = Topo('two', {1: None, 2: 1, 3: None},
           invs=[], sure=[(1, 'VCPU'), (2, 'VCPU'), (3, 'VCPU'),
                          (2, 'DISK_GB'), (3, 'DISK_GB')])

TOPOS = {
    # two compute nodes and one sharing provider
    'flat': FLAT,
    'flat-t': FLAT.but(invs=[(1, 'VCPU'), (3, 'DISK_GB')],
                       sure=[(2, 'VCPU'), (1, 'DISK_GB')],
                       traits=[(1, T1), (2, T1), (3, T1)],
                       aggs=[(1, 1)], sure_aggs=[(2, 1), (3, 1)],
                       opt_sharing=[], sure_sharing=[3]),
    'flat-a': FLAT.but(invs=[(1, 'VCPU'), (3, 'DISK_GB')],
                       sure=[(2, 'VCPU'), (1, 'DISK_GB')],
                       aggs=[(1, 1), (2, 1), (3, 1), (3, 2), (1, 2)]),
    # one tree with two children, plus a sharing provider
    'tree': TREE,
    'tree-t': TREE.but(invs=[(2, 'VCPU'), (4, 'DISK_GB')],
                       sure=[(3, 'VCPU'), (1, 'DISK_GB')],
                       traits=[(1, T1), (2, T1), (3, T1)],
                       aggs=[(4, 1)], sure_aggs=[(1, 1)],
                       opt_sharing=[], sure_sharing=[4]),
    'tree-a': TREE.but(invs=[(2, 'VCPU'), (4, 'DISK_GB')],
                       sure=[(3, 'VCPU'), (1, 'DISK_GB')],
                       aggs=[(1, 1), (2, 1), (4, 1), (4, 2), (3, 2)]),
    # a tree and a flat node, no sharing
    'two': TWO,
    'two-t': TWO.but(traits=[(1, T1), (2, T1), (3, T1), (2, T2)]),
    'two-a': TWO.but(aggs=[(1, 1), (2, 1), (3, 1), (2, 2)]),
    # sharing provider offering the class both groups ask for (anchor variants)
    'flat-s': FLAT.but(invs=[], sure=[(1, 'VCPU'), (2, 'VCPU'), (3, 'VCPU')],
                       aggs=[(2, 1)], sure_aggs=[(1, 1), (3, 1)],
                       opt_sharing=[], sure_sharing=[3]),
    # a sharing provider that is a child in another tree (legal topology)
    'nest-s': Topo('nest-s', {1: None, 2: 1, 3: None}, invs=[],
                   sure=[(1, 'VCPU'), (3, 'VCPU'), (2, 'DISK_GB')],
                   aggs=[(3, 1)], sure_aggs=[(2, 1)], sharing=[2]),
    # three classes spread so that a leading subset may have no common tree
    'three': Topo('three', {1: None, 2: 1, 3: None},
                  invs=[(1, 'VCPU'), (3, 'VCPU'), (2, 'MEMORY_MB'),
                        (3, 'MEMORY_MB'), (1, 'DISK_GB'), (3, 'DISK_GB')]),
    'three-s': Topo('three-s', {1: None, 2: None, 3: None},
                    invs=[(1, 'VCPU'), (2, 'VCPU'), (1, 'MEMORY_MB'),
                          (2, 'MEMORY_MB')], sure=[(3, 'DISK_GB')],
                    sure_aggs=[(1, 1), (2, 1), (3, 1)], sure_sharing=[3]),
    # a root with two "numa" children that each offer several classes
    'numa': Topo('numa', {1: None, 2: 1, 3: 1}, invs=[(2, 'DISK_GB'),
                                                       (3, 'DISK_GB')],
                 sure=[(2, 'VCPU'), (3, 'VCPU'), (2, 'MEMORY_MB'),
                       (3, 'MEMORY_MB')]),
    # three interchangeable children of one root (VFs of a NIC): permuted
    # assignments of two groups give several candidates per provider pair
    'three-vf': Topo('three-vf', {1: None, 2: 1, 3: 1, 4: 1},
                     invs=[(4, 'VCPU')], sure=[(2, 'VCPU'), (3, 'VCPU')]),
    'two-i': TWO.but(sure=[(1, 'VCPU'), (3, 'DISK_GB')],
                     invs=[(2, 'VCPU'), (3, 'VCPU'), (2, 'DISK_GB')]),
}


def QUERIES(tier):
    G = Group
    qs = {
        'u-vcpu-disk': Query({'': G({'VCPU': None, 'DISK_GB': None})}),
        'u-req': Query({'': G({'VCPU': None}, req=[[T1]])}),
        # a class only the sharing provider offers: the same placement is
        # reachable from every anchor it serves
        'u-disk': Query({'': G({'DISK_GB': None})}),
        '1-disk': Query({'_1': G({'DISK_GB': None})}),
        'u-forb': Query({'': G({'VCPU': None, 'DISK_GB': None},
                               forb=[T1])}),
        'u+1-none': Query({'': G({'VCPU': None}),
                           '_1': G({'VCPU': None})}, policy='none'),
        'u+1-nopolicy': Query({'': G({'VCPU': None}),
                               '_1': G({'VCPU': None})}),
        '1+2-isolate': Query({'_1': G({'VCPU': None}),
                              '_2': G({'VCPU': 1})}, policy='isolate'),
        'u-member': Query({'': G({'VCPU': None, 'DISK_GB': 1},
                                 mem=[[1]])}),
        'u-notmember': Query({'': G({'VCPU': None}, fmem=[1])}),
        # two classes that may sit on different providers of a tree, one of
        # which the forbidden aggregate may remove (both orders: the
        # implementation folds the classes in the order given)
        'u-2rc-notmember': Query({'': G({'VCPU': None, 'DISK_GB': 1},
                                        fmem=[1])}),
        'u-2rc-notmember-rev': Query({'': G({'DISK_GB': 1, 'VCPU': None},
                                            fmem=[1])}),
        'u-intree': Query({'': G({'VCPU': None, 'DISK_GB': 1}, tree=1)}),
        'u-rootreq': Query({'': G({'VCPU': None})}, rootreq=([T1], [])),
        '1+2-subtree': Query({'_1': G({'VCPU': 1}),
                              '_2': G({'DISK_GB': 1})}, policy='none',
                             subtrees=[['_1', '_2']]),
        'u-1.28': Query({'': G({'VCPU': None, 'DISK_GB': None})},
                        version='1.28'),
        # three classes in the unsuffixed group
        'u-3rc': Query({'': G({'VCPU': None, 'MEMORY_MB': 1,
                               'DISK_GB': 1})}),
        'u-3rc-rev': Query({'': G({'DISK_GB': 1, 'MEMORY_MB': 1,
                                   'VCPU': None})}),
        'u-3rc+1': Query({'': G({'VCPU': None, 'MEMORY_MB': 1,
                                 'DISK_GB': 1}),
                          '_1': G({'DISK_GB': 1})}, policy='none'),
        # three groups, the same class in two groups that are not adjacent
        'u+1+2-nonadj': Query({'': G({'VCPU': None}), '_1': G({'DISK_GB': 1}),
                               '_2': G({'VCPU': None})}, policy='none'),
        '1+2+3-nonadj': Query({'_1': G({'VCPU': None}), '_2': G({'DISK_GB': 1}),
                               '_3': G({'VCPU': 1})}, policy='none'),
        '1+2+3-isolate': Query({'_1': G({'VCPU': None}), '_2': G({'DISK_GB': 1}),
                                '_3': G({'VCPU': 1})}, policy='isolate'),
        # anchor filters together with groups a sharing provider can satisfy
        'u+D-root-notsharing': Query({'': G({'VCPU': None}),
                                      '_D': G({'DISK_GB': None})},
                                     rootreq=([], [cands.SHARING])),
        'u+D-rootreq': Query({'': G({'VCPU': None}),
                              '_D': G({'DISK_GB': None})},
                             rootreq=([T1], [])),
        'D-rootreq': Query({'_D': G({'DISK_GB': None})}, rootreq=([T1], [])),
        'u-member-unknown': Query({'': G({'VCPU': None}, mem=[[1], [9]])}),
        'u+1-member': Query({'': G({'VCPU': None}),
                             '_1': G({'DISK_GB': 1}, mem=[[1]])},
                            policy='none'),
        # a filter of one group must not leak into another: the unsuffixed
        # group is restricted to an aggregate the sharing provider serving
        # the other group is not a member of (both parameter orders)
        'u-mem+D': Query({'': G({'VCPU': None}, mem=[[1]]),
                          '_D': G({'DISK_GB': None})}, policy='none'),
        'D+u-mem': Query({'_D': G({'DISK_GB': None}),
                          '': G({'VCPU': None}, mem=[[1]])}, policy='none'),
        'u-forbmem+D': Query({'': G({'VCPU': None}, fmem=[2]),
                              '_D': G({'DISK_GB': None})}, policy='none'),
        'u-intree+D': Query({'': G({'VCPU': None}, tree=1),
                             '_D': G({'DISK_GB': None})}, policy='none'),
        'u-req+D': Query({'': G({'VCPU': None}, req=[[T1]]),
                          '_D': G({'DISK_GB': None})}, policy='none'),
        # two suffixed groups asking for the same class below 1.34, where
        # the response does not show which group landed where
        '1+2-none@1.28': Query({'1': G({'VCPU': None}),
                                '2': G({'VCPU': 1})}, policy='none',
                               version='1.28'),
        '1+2-isolate@1.33': Query({'_1': G({'VCPU': None}),
                                   '_2': G({'VCPU': 1})}, policy='isolate',
                                  version='1.33'),
        # groups without resources (1.36): only filters, placed by
        # same_subtree; every filter of such a group counts, in_tree too
        'A+B0-req-intree': Query({'_A': G({'VCPU': 1}),
                                  '_B': G({}, req=[[T1]], tree=3)},
                                 policy='none', subtrees=[['_A', '_B']]),
        'A+B0-intree-only': Query({'_A': G({'VCPU': 1}),
                                   '_B': G({}, tree=3)},
                                  policy='none', subtrees=[['_A', '_B']]),
        'A+B0-forb-only': Query({'_A': G({'VCPU': 1}),
                                 '_B': G({}, forb=[T1])},
                                policy='none', subtrees=[['_A', '_B']]),
        'A+B0-req': Query({'_A': G({'VCPU': 1}),
                           '_B': G({}, req=[[T1]])},
                          policy='none', subtrees=[['_A', '_B']]),
        # several same_subtree constraints, each of which must hold
        'A+B+C-2subtrees': Query({'_A': G({'VCPU': 1}),
                                  '_B': G({'MEMORY_MB': 1}),
                                  '_C': G({'DISK_GB': None})}, policy='none',
                                 subtrees=[['_A', '_B'], ['_B', '_C']]),
        'A+B+C-2subtrees-rev': Query({'_A': G({'VCPU': 1}),
                                      '_B': G({'MEMORY_MB': 1}),
                                      '_C': G({'DISK_GB': None})},
                                     policy='none',
                                     subtrees=[['_B', '_C'], ['_A', '_B']]),
        'u+1-forb-req': Query({'': G({'VCPU': None}, forb=[T1]),
                               '_1': G({'VCPU': 1}, req=[[T1]])},
                              policy='none'),
    }
    return qs


# (topology, query, with usage)
QUICK = [('flat', 'u-vcpu-disk', False), ('tree-t', 'u-req', False),
         ('two-i', '1+2-isolate', False), ('flat-a', 'u-member', False),
         ('tree', 'u-intree', False), ('tree', 'u+1-nopolicy', False),
         ('flat-s', 'u+1-none', False), ('nest-s', 'u-vcpu-disk', False),
         ('tree-t', 'u-rootreq', False), ('two-i', '1+2-subtree', False),
         ('two', 'u-vcpu-disk', True), ('tree-a', 'u-notmember', False),
         ('two-a', 'u-2rc-notmember', False),
         ('two-a', 'u-2rc-notmember-rev', False),
         ('tree', 'u+1+2-nonadj', False), ('flat-t', 'u+D-rootreq', False),
         ('flat', 'u+D-root-notsharing', False), ('three', 'u-3rc', False),
         ('flat-a', 'u-mem+D', False), ('numa', 'A+B+C-2subtrees', False),
         ('two-t', 'A+B0-req-intree', False)]

THOROUGH_EXTRA = [
    ('flat', 'u-disk', False), ('flat', '1-disk', False),
    ('tree', 'u-disk', False),
    ('two-t', 'A+B0-intree-only', False), ('two-t', 'A+B0-forb-only', False),
    ('two-t', 'A+B0-req', False), ('tree-t', 'A+B0-req', False),
    ('numa', 'A+B+C-2subtrees-rev', False), ('numa', '1+2-subtree', False),
    ('tree', '1+2-none@1.28', False), ('tree', '1+2-isolate@1.33', False),
    ('flat-a', 'D+u-mem', False), ('tree-a', 'u-mem+D', False),
    ('flat-a', 'u-forbmem+D', False), ('tree', 'u-intree+D', False),
    ('flat-t', 'u-req+D', False), ('tree-t', 'u-req+D', False),
    ('three', 'u-3rc-rev', False), ('three-s', 'u-3rc', False),
    ('three', 'u-3rc+1', False), ('three', 'u-3rc', True),
    ('two', 'u+1+2-nonadj', False), ('two', '1+2+3-nonadj', False),
    ('tree', '1+2+3-nonadj', False), ('tree', '1+2+3-isolate', False),
    ('flat', 'u+1+2-nonadj', False), ('flat-s', 'u+1+2-nonadj', False),
    ('flat-t', 'D-rootreq', False), ('tree-t', 'u+D-rootreq', False),
    ('tree', 'u+D-root-notsharing', False), ('flat-a', 'u-member-unknown', False),
    ('flat-a', 'u+1-member', False), ('tree-t', 'u+1-forb-req', False),
    ('two-t', 'u+1-forb-req', False),
    ('flat', 'u+1-none', False), ('flat', 'u+1-nopolicy', False),
    ('flat', '1+2-isolate', False), ('flat', '1+2-subtree', False),
    ('flat', 'u-1.28', False), ('flat', 'u-forb', False),
    ('flat-t', 'u-req', False), ('flat-t', 'u-forb', False),
    ('flat-t', 'u-rootreq', False), ('flat-t', 'u+1-none', False),
    ('flat-a', 'u-notmember', False), ('flat-a', 'u-vcpu-disk', False),
    ('flat-s', 'u+1-nopolicy', False), ('flat-s', '1+2-isolate', False),
    ('tree', 'u-vcpu-disk', False), ('tree', 'u+1-none', False),
    ('tree', '1+2-isolate', False), ('tree', '1+2-subtree', False),
    ('tree', 'u-1.28', False), ('tree', 'u-forb', False),
    ('tree-t', 'u-forb', False), ('tree-t', 'u+1-none', False),
    ('tree-a', 'u-member', False), ('tree-a', 'u-vcpu-disk', False),
    ('two', 'u+1-none', False), ('two', 'u+1-nopolicy', False),
    ('two', '1+2-isolate', False), ('two', 'u-intree', False),
    ('two', 'u-1.28', False), ('two-t', 'u-req', False),
    ('two-t', 'u-forb', False), ('two-t', 'u-rootreq', False),
    ('two-a', 'u-member', False), ('two-a', 'u-notmember', False),
    ('two-i', 'u-vcpu-disk', False), ('two-i', 'u+1-none', False),
    ('nest-s', 'u+1-none', False), ('nest-s', 'u-1.28', False),
    ('flat', 'u-vcpu-disk', True), ('tree', 'u-vcpu-disk', True),
    ('two', 'u+1-none', True), ('flat-s', 'u+1-none', True),
    ('two', '1+2-isolate', True),
]


def make_family(tname, qname, query, usage=False):
    topo = TOPOS[tname]

    def path(ctx):
        app.setup()
        with cands.CW(ctx, topo, usage=usage) as cw:
            amounts = cands.amount_terms(ctx, query)
            url = cands.querystring(query, amounts)
            r = app.call('GET', url, version=query.version)
            if r.status != 200:
                runner.violation(ctx, 'valid-query-answered-200',
                                 'status %d: %s' % (
                                     r.status, (r.error_detail or '')[:300]),
                                 sig='%d' % r.status)
                return finish(ctx, str(r.status))
            entries, sums = cands.parse_candidates(r.json, query.version)
            cs = cands.combos(cw, query, amounts)
            for i, e in enumerate(entries):
                alts = [And(cands.same_obs(e, c), Or(c['valid'], c['dc']))
                        for c in cs]
                obligation(ctx, 'nothing-violating-returned',
                           zbool(Not(Or(*alts))),
                           'returned candidate %s / %s is not a valid '
                           'combination' % (sorted(e['alloc']), e['maps']),
                           sig='extra')
                # below 1.34 the response does not show the mappings: two
                # combinations that differ only in which suffixed group
                # landed where are distinct (allocations, mappings) pairs
                # that look alike, so likeness proves nothing there
                blind = e['maps'] is None and \
                    sum(1 for s_ in query.groups if s_) >= 2
                for e2 in entries[:i]:
                    if blind:
                        break
                    if set(e2['alloc']) == set(e['alloc']) and \
                            e2['maps'] == e['maps']:
                        same = And(*[symex.to_z3(e['alloc'][k]) ==
                                     symex.to_z3(e2['alloc'][k])
                                     for k in e['alloc']])
                        obligation(ctx, 'distinct', zbool(same),
                                   'the same candidate is returned twice',
                                   sig='dup')
            for c in cs:
                hit = Or(*[cands.same_obs(e, c) for e in entries])
                obligation(ctx, 'nothing-omitted',
                           zbool(And(c['valid'], Not(c['dc']), Not(hit))),
                           'valid combination %s / %s (anchor %d) is not '
                           'returned' % (sorted(c['alloc']),
                                         dict(c['maps']), c['anchor']),
                           sig='omitted')
            return finish(ctx, '200:%d' % len(entries))
    return Family('%s/%s%s' % (tname, qname, '+usage' if usage else ''), path,
                  bounds=dict(topology=topo.parents, optional_inventories=
                              topo.invs, optional_traits=topo.traits,
                              optional_aggregates=topo.aggs,
                              sharing_candidates=list(topo.sharing),
                              query=qname, version=query.version))


def families(tier):
    qs = QUERIES(tier)
    triples = QUICK if tier == 'quick' else QUICK + THOROUGH_EXTRA
    return [make_family(t, q, qs[q], u) for t, q, u in triples]


if __name__ == '__main__':
    sys.exit(runner.run_check(
        'C03', families, functions=FUNCTIONS,
        assumptions=['oracle = DESIGN Appendix B, written from the property '
                     'statement; don\'t-care: negative member_of on the '
                     'anchor of a sharing provider',
                     'topology, names and query shape concrete per family; '
                     'inventory numbers, usage, requested amounts and '
                     'presence of every optional row symbolic'],
        quick_budget=420, thorough_budget=2400))
