"""C09 — the provider hierarchy is always a forest with correct root
pointers.  One inductive step from every forest over a pool of providers
(DESIGN 5/C09): the forest, the operands and the request kind are explorer
decisions; microversion minor, generations are symbolic."""
import itertools
import sys
import z3

from engine import app, runner, symex
from engine.runner import Family, obligation, finish
from engine.scenario import World, U, rel_diff
from engine.symdb import zbool
from engine.symex import to_z3

FUNCTIONS = [
    'placement.handlers.resource_provider.create_resource_provider/'
    'update_resource_provider/delete_resource_provider/get_resource_provider',
    'placement.objects.resource_provider.ResourceProvider._create_in_db/'
    '_update_in_db/_delete/get_subtree/_from_db_object',
    'placement.objects.resource_provider._get_provider_by_uuid/'
    '_has_child_providers/get_all_by_filters',
    'placement.objects.research_context.provider_ids_from_uuid',
    'placement.microversion.version_handler (symbolic minor)',
]
MISSING = 'eeeeeeee-1111-1111-1111-111111111111'


def forests(n):
    """all parent maps over nodes 1..n that are forests"""
    nodes = list(range(1, n + 1))
    out = []
    for choice in itertools.product(*[[None] + [m for m in nodes if m != k]
                                      for k in nodes]):
        par = dict(zip(nodes, choice))
        ok = True
        for k in nodes:
            seen = set()
            x = k
            while x is not None:
                if x in seen:
                    ok = False
                    break
                seen.add(x)
                x = par[x]
            if not ok:
                break
        if ok:
            out.append(par)
    return out


def build(ctx, par):
    w = World(ctx)
    w.rc('VCPU')
    done = set()
    order = []
    while len(order) < len(par):
        for k in sorted(par):
            if k not in done and (par[k] is None or par[k] in done):
                done.add(k)
                order.append(k)
    for k in order:
        w.provider(k, parent=par[k])
    return w


def chain_top(par, k):
    while par[k] is not None:
        k = par[k]
    return k


def subtree(par, k):
    out = {k}
    changed = True
    while changed:
        changed = False
        for c, p in par.items():
            if p in out and c not in out:
                out.add(c)
                changed = True
    return out


def check_forest(ctx, w, post, version_for_get):
    """the post-state is a forest with correct root pointers, both in the
    tables and as reported by the API"""
    rows = {}
    for r in post['resource_providers']:
        if r.present is True:
            rows[r.vals['id']] = r.vals
        elif r.present is not False:
            raise NotImplementedError('symbolic provider presence')
    for i, v in rows.items():
        p = v['parent_provider_id']
        if p is not None and p not in rows:
            runner.violation(ctx, 'parent-exists',
                             'provider %s has a missing parent' % v['uuid'])
            return
        seen = set()
        x = i
        while x is not None:
            if x in seen:
                runner.violation(ctx, 'acyclic', 'provider %s is its own '
                                 'ancestor' % v['uuid'])
                return
            seen.add(x)
            top = x
            x = rows[x]['parent_provider_id']
        if v['root_provider_id'] != top:
            runner.violation(ctx, 'root-pointer',
                             'root of %s is %s, chain top is %s' % (
                                 v['uuid'], v['root_provider_id'], top),
                             sig='table')
        r = app.call('GET', '/resource_providers/' + v['uuid'],
                     version='1.14')
        if r.status != 200 or \
                r.json.get('root_provider_uuid') != rows[top]['uuid'] or \
                r.json.get('parent_provider_uuid') != (
                    rows[p]['uuid'] if p is not None else None):
            runner.violation(ctx, 'root-pointer',
                             'API reports wrong parent/root for %s' %
                             v['uuid'], sig='api')


def expect(ctx, ok_formula, r, what):
    ok = r.status < 400
    f = ok_formula if not isinstance(ok_formula, bool) else \
        z3.BoolVal(ok_formula)
    if ok:
        obligation(ctx, 'status-per-statement', z3.Not(f),
                   '%s accepted (%d) although the statement requires '
                   'rejection' % (what, r.status), sig='accepted')
    else:
        obligation(ctx, 'status-per-statement', f,
                   '%s rejected (%d) although the statement requires '
                   'success' % (what, r.status), sig='rejected:%d' % r.status)
        if r.status not in (400, 409, 404):
            runner.violation(ctx, 'status-per-statement',
                             '%s answered %d' % (what, r.status),
                             sig=str(r.status))


def fam_post(n, fs=None, tag=''):
    fs = fs or forests(n)

    def path(ctx):
        app.setup()
        par = fs[symex.choose(len(fs))]
        opts = [None] + sorted(par) + ['missing', 'self']
        parent = opts[symex.choose(len(opts))]
        minor = app.sym_minor(ctx)
        with build(ctx, par) as w:
            pre = w.dump()
            new = n + 1
            body = {'name': 'p%d' % new, 'uuid': U(new)}
            if parent is not None:
                body['parent_provider_uuid'] = MISSING if parent == 'missing' \
                    else U(new) if parent == 'self' else U(parent)
            r = app.call('POST', '/resource_providers', body, version='sym')
            post = w.dump()
            m = to_z3(minor)
            if parent is None:
                ok = True
            elif parent in ('missing', 'self'):
                ok = False
            else:
                ok = m >= 14
            expect(ctx, ok, r, 'POST under %s' % parent)
            if r.status >= 400:
                obligation(ctx, 'rejection-changes-nothing',
                           zbool(rel_diff(pre, post, ('resource_providers',))),
                           'rejected POST changed the providers')
            check_forest(ctx, w, post, None)
            return finish(ctx, 'post:%s:%d' % (
                'none' if parent is None else parent
                if isinstance(parent, str) else 'p', r.status))
    return Family('post-%d%s' % (n, tag), path,
                  bounds=dict(pool=n, forests=len(fs),
                              parents='none, each provider, missing, self',
                              minor='symbolic 0..39'))


def fam_put(n, fs=None, tag=''):
    fs = fs or forests(n)

    def path(ctx):
        app.setup()
        par = fs[symex.choose(len(fs))]
        nodes = sorted(par)
        x = nodes[symex.choose(len(nodes))]
        opts = ['absent', None, 'missing'] + nodes
        y = opts[symex.choose(len(opts))]
        rename = symex.choose(2) == 1
        # the parent may be named in any spelling the schema's uuid format
        # admits: canonical, upper case, without dashes
        spelling = symex.choose(3) if isinstance(y, int) else 0
        with_uuid = symex.choose(3) if spelling == 0 and len(nodes) > 1 \
            else 0
        minor = app.sym_minor(ctx)
        with build(ctx, par) as w:
            pre = w.dump()
            body = {'name': 'p%d%s' % (x, 'x' if rename else '')}
            if y != 'absent':
                body['parent_provider_uuid'] = None if y is None else \
                    MISSING if y == 'missing' else (
                        U(y), U(y).upper(), U(y).replace('-', ''))[spelling]
            # a member PUT does not document: the uuid (its own or another
            # provider's), which only POST may carry - always refused
            if with_uuid == 1:
                body['uuid'] = U(x)
            elif with_uuid == 2:
                body['uuid'] = U([n_ for n_ in nodes if n_ != x][0])
            r = app.call('PUT', '/resource_providers/' + U(x), body,
                         version='sym')
            post = w.dump()
            m = to_z3(minor)
            cur = par[x]
            if y == 'absent':
                ok = True
            elif y == 'missing':
                ok = False
            elif y is None:
                ok = (m >= 14) if cur is None else (m >= 37)
            elif y in subtree(par, x):
                ok = False
            elif cur is None or cur == y:
                ok = m >= 14
            else:
                ok = m >= 37
            if with_uuid:
                ok = False
            if spelling == 0:
                expect(ctx, ok, r, 'PUT %d parent %s->%s' % (x, cur, y))
            elif r.status < 400:
                # a non-canonical spelling may be refused as "no such
                # parent"; if it is honoured it must be honoured as that
                # provider, under the same rules
                expect(ctx, ok, r, 'PUT %d parent %s->%s (spelling %d)' % (
                    x, cur, y, spelling))
            if r.status >= 400:
                obligation(ctx, 'rejection-changes-nothing',
                           zbool(rel_diff(pre, post, ('resource_providers',))),
                           'rejected PUT changed the providers')
            else:
                # the move took effect: x hangs under y, subtree follows
                want = dict(par)
                if y != 'absent':
                    want[x] = y
                got = {v.vals['id']: v.vals['parent_provider_id']
                       for v in post['resource_providers']
                       if v.present is True}
                if got != want:
                    runner.violation(ctx, 'move-took-effect',
                                     'parents after accepted PUT %s, expected '
                                     '%s' % (got, want))
            check_forest(ctx, w, post, None)
            return finish(ctx, 'put:%d' % r.status)
    return Family('put-%d%s' % (n, tag), path,
                  bounds=dict(pool=n, forests=len(fs),
                              new_parent='absent, null, missing, each '
                              'provider (incl. self and descendants)',
                              minor='symbolic 0..39'))


def fam_delete(n, fs=None, tag=''):
    fs = fs or forests(n)

    def path(ctx):
        app.setup()
        par = fs[symex.choose(len(fs))]
        nodes = sorted(par)
        x = nodes[symex.choose(len(nodes))]
        minor = app.sym_minor(ctx)
        with build(ctx, par) as w:
            pre = w.dump()
            r = app.call('DELETE', '/resource_providers/' + U(x),
                         version='sym')
            post = w.dump()
            has_child = any(p == x for p in par.values())
            expect(ctx, not has_child, r, 'DELETE %d' % x)
            if has_child and r.status != 409:
                runner.violation(ctx, 'status-per-statement',
                                 'DELETE of a parent answered %d' % r.status)
            if r.status >= 400:
                obligation(ctx, 'rejection-changes-nothing',
                           zbool(rel_diff(pre, post, ('resource_providers',))),
                           'rejected DELETE changed the providers')
            check_forest(ctx, w, post, None)
            return finish(ctx, 'delete:%d' % r.status)
    return Family('delete-%d%s' % (n, tag), path,
                  bounds=dict(pool=n, forests=len(fs)))


def chain_world(ctx):
    """p1 <- p2 <- p3, separate roots p4 and p5"""
    w = World(ctx)
    w.rc('VCPU')
    w.provider(1)
    w.provider(2, parent=1)
    w.provider(3, parent=2)
    w.provider(4)
    w.provider(5)
    return w


def conc_family(name, specs):
    """two hierarchy changes in flight together: after every interleaving at
    transaction granularity the hierarchy is a forest with correct roots"""
    from checks import conc, c18
    from checks.conc import Req

    def mk(spec):
        kind, n, parent, rename = spec

        def fn(ctx, w):
            if kind == 'delete':
                return app.call('DELETE', '/resource_providers/' + U(n),
                                version='1.37')
            if kind == 'post':
                return app.call('POST', '/resource_providers', {
                    'name': 'new%d' % n, 'uuid': U(n),
                    'parent_provider_uuid': U(parent)}, version='1.37')
            body = {'name': 'p%d%s' % (n, 'x' if rename else '')}
            if parent != 'absent':
                body['parent_provider_uuid'] = None if parent is None \
                    else U(parent)
            return app.call('PUT', '/resource_providers/' + U(n), body,
                            version='1.37')
        return Req('%s(%s->%s)' % (kind, n, parent), fn)

    def path(ctx):
        app.setup()
        reqs = [mk(s) for s in specs]
        pre, results, final, sched, writes = conc.run_concurrent(
            ctx, chain_world, reqs)
        for i, r in enumerate(results):
            if r.status >= 500:
                runner.violation(ctx, 'no-5xx', '%s: %d' % (reqs[i].name,
                                                            r.status))
        before = len(ctx.data.get('violations', []))
        c18.forest_ok(ctx, final)
        ctx.data['obligations'] = ctx.data.get('obligations', 0) + 1
        if len(ctx.data.get('violations', [])) == before:
            ctx.data['discharged'] = ctx.data.get('discharged', 0) + 1
        return finish(ctx, ','.join(str(r.status) for r in results))
    return Family('conc/' + name, path, bounds=dict(
        world='chain p1<-p2<-p3 and roots p4, p5',
        schedules='every interleaving at transaction granularity'))


def deep_forests():
    """hand-picked forests over 8 providers (the pool size the statement
    names): deep chains in both id orders, wide and mixed trees"""
    N = None
    return [
        {1: N, 2: 1, 3: 2, 4: 3, 5: 4, 6: 5, 7: 6, 8: 7},
        {8: N, 7: 8, 6: 7, 5: 6, 4: 5, 3: 4, 2: 3, 1: 2},
        {1: N, 2: 1, 3: 2, 4: 3, 5: N, 6: 5, 7: 6, 8: 7},
        {1: N, 2: 1, 3: 1, 4: 1, 5: 1, 6: 1, 7: 1, 8: 1},
        {1: N, 2: 1, 3: 1, 4: 2, 5: 2, 6: 3, 7: 3, 8: N},
        {8: N, 3: 8, 5: 3, 1: 5, 2: 8, 4: 2, 6: 4, 7: N},
    ]


def families(tier):
    n = 3 if tier == 'quick' else 4
    fams = [fam_post(n), fam_put(n), fam_delete(n),
            conc_family('move+restate-parent', [('put', 2, 4, False),
                                                ('put', 2, 1, True)]),
            conc_family('move+move', [('put', 2, 4, False),
                                      ('put', 2, 5, False)]),
            # a provider is deleted while its first child is being created,
            # or while an existing root is being put under it
            conc_family('delete-leaf+post-child-under-it',
                        [('delete', 3, None, False), ('post', 7, 3, False)]),
            conc_family('delete-root+move-under-it',
                        [('delete', 4, None, False), ('put', 5, 4, False)])]
    if tier == 'thorough':
        deep = deep_forests()
        fams += [fam_post(8, deep, '-deep'), fam_put(8, deep, '-deep'),
                 fam_delete(8, deep, '-deep')]
        fams += [
            conc_family('move+unparent', [('put', 2, 4, False),
                                          ('put', 2, None, False)]),
            conc_family('move-parent+move-child', [('put', 2, 4, False),
                                                   ('put', 3, 5, False)]),
            conc_family('move+rename-only', [('put', 2, 4, False),
                                             ('put', 2, 'absent', True)]),
            conc_family('move-under-each-other', [('put', 4, 5, False),
                                                  ('put', 5, 4, False)]),
            conc_family('move+delete-leaf', [('put', 2, 4, False),
                                             ('delete', 3, None, False)]),
            conc_family('move+post-child', [('put', 2, 4, False),
                                            ('post', 7, 3, False)]),
        ]
    return fams


if __name__ == '__main__':
    sys.exit(runner.run_check(
        'C09', families, functions=FUNCTIONS,
        assumptions=['pre-state: any forest over the pool (3 quick / 4 '
                     'thorough providers) with correct root pointers; parent '
                     'links concrete per path (explorer decisions), '
                     'microversion minor and generations symbolic',
                     'pools of 5-8 providers: six hand-picked forests over 8 '
                     'providers in the thorough tier (deep chains in both '
                     'id orders, star, binary, mixed), not all forests'],
        quick_budget=420, thorough_budget=2400))
