"""C07 — concurrent claims are serializable and never jointly over-commit
(DESIGN 5/C07)."""
import sys
import z3

from engine import app, runner, symex
from engine.runner import Family, obligation, finish
from engine.scenario import U, CONS, used_sum, capacity
from engine.symdb import zbool
from engine.symex import to_z3
from checks import conc, c05, corpus
from checks.conc import Req


def build(ctx):
    """c05's world plus two existing consumers (holding something on p2), so
    that the claims race for the inventory and not for consumer creation
    (that race is C06's)"""
    w = c05.build(ctx)
    for c in (1, 3):
        w.allocation(c, 2, 'VCPU', present=True, used=1)
        w.consumer(c, present=True, generation=ctx.int('cgen%d' % c, 0))
    return w


def claim(n, consumer, target=1, gen='int', project='proj'):
    def fn(ctx, w):
        return app.call('PUT', '/allocations/' + CONS(consumer), {
            'allocations': {U(target): {'resources': {
                'VCPU': ctx.int('amt%d' % n, 1)}}},
            'project_id': project, 'user_id': 'user',
            'consumer_generation': None if gen == 'null'
            else ctx.int('cgen%d' % consumer, 0)}, version='1.36')
    return Req('claim%d(c%d%s)' % (n, consumer, '' if project == 'proj'
                                   else ',' + project), fn,
               consumer=consumer)


def post_claim(n, consumers, target=1):
    def fn(ctx, w):
        body = {}
        for c in consumers:
            body[CONS(c)] = {
                'allocations': {U(target): {'resources': {
                    'VCPU': ctx.int('amt%d_c%d' % (n, c), 1)}}},
                'project_id': 'proj', 'user_id': 'user',
                'consumer_generation': None}
        return app.call('POST', '/allocations', body, version='1.36')
    return Req('post%d' % n, fn)


def make_family(name, reqs, max_preemptions=None, retry_count=None):
    def path(ctx):
        app.setup()
        if retry_count is not None:
            # [placement] allocation_conflict_retry_count (default 10): with
            # 1, a single competing provider write exhausts the retries
            app.set_conf('placement',
                         allocation_conflict_retry_count=retry_count)
        try:
            return path_(ctx)
        finally:
            if retry_count is not None:
                app.set_conf('placement', allocation_conflict_retry_count=10)

    def path_(ctx):
        pre, results, final, sched, writes = conc.run_concurrent(
            ctx, build, reqs, max_preemptions=max_preemptions)
        for i, r in enumerate(results):
            if r.status >= 500:
                runner.violation(ctx, 'no-5xx', '%s: %d %s' % (
                    reqs[i].name, r.status, (r.error_detail or '')[:200]),
                    sig=reqs[i].name)
        conc.check_serializable(ctx, build, reqs, results, final)
        # never jointly over-commit: if the inventory was not over-committed
        # before and no request changed it, it is not over-committed after
        inv_changed = any('inv' in reqs[i].name or 'reshape' in reqs[i].name
                          for i, r in enumerate(results) if r.status < 400)
        if not inv_changed:
            invs = [r for r in pre['inventories']
                    if r.vals['resource_provider_id'] == 1 and
                    r.vals['resource_class_id'] == 0]
            if invs:
                cap = capacity(invs[0].vals)
                up, uf = used_sum(pre, 1, 0), used_sum(final, 1, 0)
                capr = cap if cap.sort() == z3.RealSort() else z3.ToReal(cap)
                obligation(ctx, 'no-joint-overcommit',
                           z3.And(z3.ToReal(up) <= capr,
                                  z3.ToReal(uf) > capr),
                           'concurrent claims together exceed (total-'
                           'reserved)*ratio although each was accepted',
                           sig='overcommit')
        return finish(ctx, ','.join(str(r.status) for r in results),
                      info=dict(points=sched.points))
    return Family(name, path, bounds=dict(
        requests=[r.name for r in reqs],
        scheduling='every interleaving at transaction granularity' +
        ('' if max_preemptions is None else ' with at most %d pre-emptions '
         '(switches away from a request that could have continued); '
         'schedules with more are outside the claim' % max_preemptions)))


def families(tier):
    from checks import c06
    fams = [
        make_family('claim+claim', [claim(1, 1), claim(2, 3)]),
        make_family('claim+put_invs', [claim(1, 1), c05.put_invs(2)]),
        # two claims racing to create the same consumer
        make_family('new-claim(c7)+new-claim(c7)', [claim(1, 7, gen='null'),
                                                    claim(2, 7, gen='null')]),
        # two guarded updates that ask for the same thing
        make_family('put_aggs+put_aggs(same list)',
                    [c05.put_aggs(1), c05.put_aggs(2)]),
        make_family('put_traits+put_traits(same list)',
                    [c05.put_traits(1), c05.put_traits(2)]),
        # (the new totals are symbolic: equal and different targets)
        make_family('put_invs+put_invs', [c05.put_invs(1), c05.put_invs(2)]),
        make_family('put_inv+put_inv', [c05.put_inv(1), c05.put_inv(2)]),
        # retries exhausted by one competing provider write
        make_family('claim+put_traits/retry=1',
                    [claim(1, 1), c05.put_traits(2)], retry_count=1),
        # the same consumer: one of the two claims re-owns it
        make_family('claim(c1,proj2)+claim(c1)', [
            claim(1, 1, project='proj2'), claim(2, 1, target=2)]),
        # the same consumer: a claim racing a release
        make_family('claim(c1)+release(c1)', [claim(1, 1),
                                              c06.put_empty(2, 'int')]),
    ]
    if tier == 'thorough':
        fams += [
            make_family('claim+put_traits', [claim(1, 1), c05.put_traits(2)]),
            make_family('claim+put_aggs', [claim(1, 1), c05.put_aggs(2)]),
            make_family('claim+post2', [claim(1, 1), post_claim(2, [4, 5])]),
            make_family('claim+delete_inv', [claim(1, 1), c05.delete_inv(2)]),
            make_family('claim+reshape', [claim(1, 1), c05.reshape(2)]),
            # NOTE: claim(c1) racing DELETE /allocations/c1 is outside the
            # quantifier (DELETE carries no consumer generation); it is not
            # serializable on the unchanged tree, see DESIGN 11.9
            make_family('claim(c1)+post_release(c1)',
                        [claim(1, 1), c06.post_empty(2, 'int')]),
            # three requests: all interleavings of three requests (~10^5
            # schedules x data paths) do not finish; explored under a
            # context bound of 2 pre-emptions
            make_family('claim+claim+put_invs/2-preemptions',
                        [claim(1, 1), claim(2, 3), c05.put_invs(3)],
                        max_preemptions=2),
            make_family('claim+claim+claim/2-preemptions',
                        [claim(1, 1), claim(2, 3), claim(3, 7, gen='null')],
                        max_preemptions=2),
        ]
    return fams


if __name__ == '__main__':
    sys.exit(runner.run_check(
        'C07', families, functions=c05.FUNCTIONS,
        assumptions=['each transaction atomic and isolated (as under a '
                     'serializable DBMS); pre-emption only between '
                     'transactions; interleavings enumerated as paths; '
                     'serial reference executions are run inside the same '
                     'path on fresh copies of the same symbolic state'],
        quick_budget=420, thorough_budget=2400))
