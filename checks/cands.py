"""Shared machinery for the allocation-candidate checks (C02, C03, C20) and
the provider-listing check (C13): topologies with symbolic inventories, usage,
trait and aggregate bits; query construction; response parsing; and the
relational oracle of DESIGN Appendix B written as z3 formulas.

The oracle never imports the object layer: it is written from the property
statements and the api-ref only.
"""
import itertools

import z3

from engine import app, symex, symdb
from engine.scenario import World, U, AGG, SHARING
from engine.symdb import And, Or, Not, zbool
from engine.symex import Sym, SymNum, to_z3

T1, T2 = 'CUSTOM_T1', 'CUSTOM_T2'


class Topo:
    def __init__(self, name, parents, invs, traits=(), aggs=(), sharing=(),
                 fixed_inv=None, sure=(), sure_traits=(), sure_aggs=(),
                 sure_sharing=()):
        self.name = name
        self.parents = parents          # {pid: parent pid or None}
        self.sure = list(sure)          # [(pid, rc)] inventories always there
        self.sure_traits = list(sure_traits)
        self.sure_aggs = list(sure_aggs)
        self.sure_sharing = list(sure_sharing)
        self.invs = invs                # [(pid, rc)] that MAY have inventory
        self.traits = traits            # [(pid, trait)] optional bits
        self.aggs = aggs                # [(pid, agg n)] optional bits
        self.sharing = list(sharing) + list(sure_sharing)
        self.opt_sharing = list(sharing)
        self.fixed_inv = fixed_inv or {}

    def but(self, **kw):
        """copy with some attributes replaced"""
        import copy
        t = copy.copy(self)
        for k, v in kw.items():
            setattr(t, k, v)
        t.sharing = list(t.opt_sharing) + list(t.sure_sharing)
        return t

    def root(self, p):
        while self.parents[p] is not None:
            p = self.parents[p]
        return p

    def anc(self, p):
        out = {p}
        while self.parents[p] is not None:
            p = self.parents[p]
            out.add(p)
        return out

    @property
    def has_nesting(self):
        return any(v is not None for v in self.parents.values())


class CW:
    """candidate world: the World plus symbolic handles for the oracle"""

    def __init__(self, ctx, topo, rcs=('VCPU', 'MEMORY_MB', 'DISK_GB'),
                 naggs=2,
                 usage=True, ratio=None):
        self.ctx = ctx
        self.topo = topo
        w = self.w = World(ctx)
        for rc in rcs:
            w.rc(rc)
        for t in (SHARING, T1, T2):
            w.trait(t)
        for a in range(1, naggs + 1):
            w.agg(a)
        w.project('proj')
        w.user('user')
        self.inv, self.used, self.tr, self.ag = {}, {}, {}, {}
        for p in sorted(topo.parents):
            w.provider(p, parent=topo.parents[p], generation=0)
        have_usage = False
        for (p, rc) in list(topo.sure) + list(topo.invs):
            kw = dict(topo.fixed_inv.get((p, rc), {}))
            if ratio is not None:
                kw.setdefault('allocation_ratio', ratio)
            if (p, rc) in topo.sure:
                kw['present'] = True
            self.inv[(p, rc)] = w.inventory(p, rc, **kw)
            if usage:
                # usage >= 1 wherever there is inventory; the zero-usage
                # states are covered by the usage=False families
                u = ctx.int('used_p%d_%s' % (p, rc), 1)
                w.allocation(9, p, rc, present=self.inv[(p, rc)]['present'],
                             used=u)
                self.used[(p, rc)] = u
                have_usage = True
        if have_usage:
            pres = [self.inv[k]['present'] for k in self.inv]
            w.consumer(9, present=any(pres) if w.concrete else Or(*pres),
                       generation=0)
        for (p, t) in topo.traits:
            self.tr[(p, t)] = w.has_trait(p, t)
        for (p, t) in topo.sure_traits:
            self.tr[(p, t)] = w.has_trait(p, t, present=True)
        for p in topo.opt_sharing:
            self.tr[(p, SHARING)] = w.has_trait(p, SHARING)
        for p in topo.sure_sharing:
            self.tr[(p, SHARING)] = w.has_trait(p, SHARING, present=True)
        for (p, a) in topo.aggs:
            self.ag[(p, a)] = w.in_agg(p, a)
        for (p, a) in topo.sure_aggs:
            self.ag[(p, a)] = w.in_agg(p, a, present=True)

    def close(self):
        self.w.close()

    def __enter__(self):
        return self

    def __exit__(self, *a):
        self.close()
        return False

    # ---- oracle atoms (z3 Bool / python bool)
    def has_trait(self, p, t):
        return self.tr.get((p, t), False)

    def in_agg(self, p, a):
        # aggregate numbers that were never created (e.g. 9) have no members
        return self.ag.get((p, a), False)

    def aggs_of(self, p):
        return [a for (q, a) in self.ag if q == p]

    def cap(self, p, rc):
        i = self.inv[(p, rc)]
        return symex.z_mul(to_z3(i['total']) - to_z3(i['reserved']),
                           to_z3(i['allocation_ratio']))

    def cap_int(self, p, rc):
        c = self.cap(p, rc)
        if c.sort() == z3.IntSort():
            return c
        return z3.If(c >= 0, z3.ToInt(c), -z3.ToInt(-c))

    def fits(self, p, rc, n):
        """inventory of rc on p with room for n under capacity and units"""
        if (p, rc) not in self.inv:
            return False
        i = self.inv[(p, rc)]
        n = to_z3(n)
        used = to_z3(self.used.get((p, rc), 0))
        cap = self.cap(p, rc)
        lhs = used + n
        cond = z3.And(
            (z3.ToReal(lhs) if cap.sort() == z3.RealSort() else lhs) <= cap,
            to_z3(i['min_unit']) <= n, n <= to_z3(i['max_unit']),
            symex.z_mod(n, to_z3(i['step_size'])) == 0)
        return And(i['present'], cond)

    def sharing(self, p):
        return self.has_trait(p, SHARING)

    def anchored_by_sharing(self, s, a):
        """a is the root of some provider sharing an aggregate with s"""
        alts = []
        for q in self.topo.parents:
            if self.topo.root(q) != a:
                continue
            for x in self.aggs_of(s):
                alts.append(And(self.in_agg(s, x), self.in_agg(q, x)))
        return Or(*alts)


# --------------------------------------------------------------------------
# queries

class Group:
    def __init__(self, res, req=(), forb=(), mem=(), fmem=(), tree=None):
        self.res = dict(res)        # rc -> int | None (symbolic)
        self.req = [list(k) for k in req]     # list of any-of lists
        self.forb = list(forb)
        self.mem = [list(m) for m in mem]     # list of any-of lists of agg n
        self.fmem = list(fmem)
        self.tree = tree


class Query:
    def __init__(self, groups, policy=None, rootreq=None, subtrees=(),
                 version='1.39', limit=None, name=None):
        self.groups = groups        # {suffix: Group}
        self.policy = policy
        self.rootreq = rootreq      # (required list, forbidden list)
        self.subtrees = [list(s) for s in subtrees]
        self.version = version
        self.limit = limit
        self.name = name

    @property
    def nested(self):
        return tuple(int(x) for x in self.version.split('.')) >= (1, 29)


def amount_terms(ctx, query):
    """{(suffix, rc): term} — requested amounts, symbolic unless fixed"""
    out = {}
    toks = ctx.data.setdefault('tokens', {})
    for s, g in query.groups.items():
        for rc, n in g.res.items():
            if n is None:
                # valid amounts: 1 .. 2**63-1 (larger ones are answered 400)
                n = ctx.int('req%s_%s' % (s or '', rc), 1, 2 ** 63 - 1)
            out[(s, rc)] = n
            if isinstance(n, Sym):
                toks['$s%s_%s' % (s.strip('_') or 'u', rc)] = n
    return out


def _tok(s, rc, n):
    if isinstance(n, Sym):
        return '$s%s_%s' % (s.strip('_') or 'u', rc)
    return str(n)


def querystring(query, amounts, path='/allocation_candidates'):
    q = []
    for s, g in query.groups.items():
        if g.res:
            q.append('resources%s=%s' % (s, ','.join(
                '%s:%s' % (rc, _tok(s, rc, amounts[(s, rc)]))
                for rc in g.res)))
        for K in g.req:
            q.append('required%s=%s' % (
                s, K[0] if len(K) == 1 else 'in:' + ','.join(K)))
        if g.forb:
            q.append('required%s=%s' % (s, ','.join('!' + t for t in g.forb)))
        for M in g.mem:
            q.append('member_of%s=%s' % (
                s, AGG(M[0]) if len(M) == 1 else
                'in:' + ','.join(AGG(a) for a in M)))
        if g.fmem:
            q.append('member_of%s=%s' % (
                s, '!' + AGG(g.fmem[0]) if len(g.fmem) == 1 else
                '!in:' + ','.join(AGG(a) for a in g.fmem)))
        if g.tree is not None:
            q.append('in_tree%s=%s' % (s, U(g.tree)))
    if query.policy:
        q.append('group_policy=' + query.policy)
    if query.rootreq:
        q.append('root_required=' + ','.join(
            list(query.rootreq[0]) + ['!' + t for t in query.rootreq[1]]))
    for S in query.subtrees:
        q.append('same_subtree=' + ','.join(S))
    if query.limit is not None:
        q.append('limit=%d' % query.limit)
    return path + '?' + '&'.join(q)


def parse_candidates(js, version='1.39'):
    """response JSON -> [dict(alloc={(pid, rc): amount}, maps={suffix:
    frozenset(pid)})], {pid: summary}"""
    v = tuple(int(x) for x in version.split('.'))
    out = []
    for ar in js['allocation_requests']:
        alloc = {}
        if v >= (1, 12):
            for u, d in ar['allocations'].items():
                for rc, n in d['resources'].items():
                    alloc[(int(u[:8]), rc)] = n
        else:
            for e in ar['allocations']:
                for rc, n in e['resources'].items():
                    alloc[(int(e['resource_provider']['uuid'][:8]), rc)] = n
        maps = None
        if 'mappings' in ar:
            maps = {k: frozenset(int(x[:8]) for x in vs)
                    for k, vs in ar['mappings'].items()}
        out.append(dict(alloc=alloc, maps=maps, raw=ar))
    sums = {int(u[:8]): s for u, s in js['provider_summaries'].items()}
    return out, sums


# --------------------------------------------------------------------------
# the oracle (DESIGN Appendix B)

def _all(cw, conds):
    return And(*conds)


def group_ok(cw, g, p, amounts, s):
    """suffixed group g wholly satisfied by provider p (anchor aside)"""
    topo = cw.topo
    conds = [cw.fits(p, rc, amounts[(s, rc)]) for rc in g.res]
    for K in g.req:
        conds.append(Or(*[cw.has_trait(p, t) for t in K]))
    for t in g.forb:
        conds.append(Not(cw.has_trait(p, t)))
    for M in g.mem:
        conds.append(Or(*[cw.in_agg(p, a) for a in M]))
    for a in g.fmem:
        conds.append(Not(cw.in_agg(p, a)))
    if g.tree is not None:
        conds.append(topo.root(p) == topo.root(g.tree))
    return And(*conds)


def combos(cw, query, amounts):
    """Enumerate the potential combinations of the family and give each its
    validity formula.  Yields dict(alloc={(p, rc): [terms]}, maps, valid, dc)
    """
    topo = cw.topo
    P = sorted(topo.parents)
    roots = [p for p in P if topo.parents[p] is None]
    sufs = [s for s in query.groups if s != '']
    g0 = query.groups.get('')
    out = []
    for a in roots:
        anchor_conds = []
        if query.rootreq:
            for t in query.rootreq[0]:
                anchor_conds.append(cw.has_trait(a, t))
            for t in query.rootreq[1]:
                anchor_conds.append(Not(cw.has_trait(a, t)))
        # options for the unsuffixed group: an assignment class -> provider
        opts0 = [None]
        if g0 is not None:
            per = []
            for rc in g0.res:
                cs = []
                n = amounts[('', rc)]
                for p in P:
                    if (p, rc) not in cw.inv:
                        continue
                    base = cw.fits(p, rc, n)
                    if base is False:
                        continue
                    dc = False
                    if topo.root(p) == a:
                        conds = [base]
                        for M in g0.mem:
                            conds.append(Or(*[Or(cw.in_agg(p, x),
                                                 cw.in_agg(a, x)) for x in M]))
                        for x in g0.fmem:
                            conds.append(Not(Or(cw.in_agg(p, x),
                                                cw.in_agg(a, x))))
                        if g0.tree is not None and \
                                topo.root(g0.tree) != a:
                            continue
                        cs.append((p, And(*conds), dc))
                    if p in topo.sharing and topo.root(p) != a:
                        if g0.tree is not None:
                            continue
                        conds = [base, cw.sharing(p),
                                 cw.anchored_by_sharing(p, a)]
                        for M in g0.mem:
                            conds.append(Or(*[cw.in_agg(p, x) for x in M]))
                        for x in g0.fmem:
                            conds.append(Not(cw.in_agg(p, x)))
                            # negative member_of on the anchor of a sharing
                            # provider: the statement is silent
                            dc = Or(dc, cw.in_agg(a, x))
                        cs.append((p, And(*conds), dc))
                per.append([(rc, p, c, d) for (p, c, d) in cs])
            opts0 = list(itertools.product(*per))
        optsi = []
        for s in sufs:
            g = query.groups[s]
            cs = []
            for p in P:
                ok = group_ok(cw, g, p, amounts, s)
                if ok is False:
                    continue
                if topo.root(p) == a:
                    anch = True
                elif p in topo.sharing:
                    anch = And(cw.sharing(p), cw.anchored_by_sharing(p, a))
                else:
                    continue
                c = And(ok, anch)
                if c is not False:
                    cs.append((p, c))
            optsi.append(cs)
        for c0 in opts0:
            for ps in itertools.product(*optsi):
                conds = list(anchor_conds)
                dc = False
                alloc = {}
                maps = {}
                used_ps = set()
                if c0 is not None:
                    for rc, p, c, d in c0:
                        conds.append(c)
                        dc = Or(dc, d)
                        alloc.setdefault((p, rc), []).append(
                            amounts[('', rc)])
                        maps.setdefault('', set()).add(p)
                        used_ps.add(p)
                    g0ps = {p for _, p, _, _ in c0}
                    for K in g0.req:
                        conds.append(Or(*[cw.has_trait(p, t)
                                          for p in g0ps for t in K]))
                    for t in g0.forb:
                        for p in g0ps:
                            conds.append(Not(cw.has_trait(p, t)))
                m = {}
                for s, (p, c) in zip(sufs, ps):
                    conds.append(c)
                    m[s] = p
                    maps.setdefault(s, set()).add(p)
                    used_ps.add(p)
                    for rc in query.groups[s].res:
                        alloc.setdefault((p, rc), []).append(
                            amounts[(s, rc)])
                if query.policy == 'isolate' and \
                        len(set(m.values())) != len(m):
                    continue
                ok = True
                for S in query.subtrees:
                    X = {m[s] for s in S if s in m}
                    if X and not any(all(x in topo.anc(y) for y in X)
                                     for x in X):
                        ok = False
                if not ok:
                    continue
                if not query.nested and topo.has_nesting:
                    rts = [topo.root(p) for p in used_ps]
                    if len(set(rts)) != len(rts):
                        continue
                # capacity / max_unit on the summed amounts
                for (p, rc), terms in alloc.items():
                    n = to_z3(terms[0])
                    for t in terms[1:]:
                        n = n + to_z3(t)
                    i = cw.inv[(p, rc)]
                    used = to_z3(cw.used.get((p, rc), 0))
                    conds.append(z3.And(used + n <= cw.cap_int(p, rc),
                                        n <= to_z3(i['max_unit'])))
                v = And(*conds)
                if v is False:
                    continue
                out.append(dict(alloc=alloc,
                                maps={k: frozenset(x) for k, x in
                                      maps.items()},
                                valid=v, dc=dc, anchor=a))
    return out


def sum_terms(terms):
    n = to_z3(terms[0])
    for t in terms[1:]:
        n = n + to_z3(t)
    return n


def same_obs(entry, combo, with_maps=True):
    """z3 Bool/bool: a returned entry equals the observable of a combo"""
    if set(entry['alloc']) != set(combo['alloc']):
        return False
    if with_maps and entry['maps'] is not None and \
            entry['maps'] != combo['maps']:
        return False
    eqs = []
    for k, terms in combo['alloc'].items():
        eqs.append(to_z3(entry['alloc'][k]) == sum_terms(terms))
    return And(*eqs)
