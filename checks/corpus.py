"""The write corpus shared by C04, C08, C10, C12, C17, C18: request shapes
over a standard symbolic pre-state.

Standard world (all numbers symbolic unless noted):

  p1 (root) ── p2 (child)         p3 (separate root; only in some shapes)
  classes VCPU, DISK_GB (+ CUSTOM_FOO without inventory)
  inventories (optional rows): (p1,VCPU) (p1,DISK_GB) (p2,VCPU)
  consumer c1 (writer; optional) with optional allocations on (p1,VCPU),
      (p2,VCPU); consumer c2 (bystander) with optional allocation on (p1,VCPU)
  trait CUSTOM_T1 optional on p1; aggregate agg1 optional on p1
  pre-state invariant assumed: allocation => inventory; consumer row <=> it
  has at least one allocation (C08/C12 invariants, which the same checks
  re-establish on the post-state: one inductive step).
"""
import z3

from engine import app, symex
from engine.scenario import World, U, CONS, AGG
from engine.symdb import And, Or

BAD = 'ffffffff-1111-1111-1111-111111111111'     # provider that never exists
T1, T2 = 'CUSTOM_T1', 'CUSTOM_T2'
STD_TRAIT = 'HW_CPU_X86_AVX'


def conj(ctx, *bits):
    if getattr(ctx, 'concrete', False):
        return all(bits)
    r = And(*bits)
    return r


def disj(ctx, *bits):
    if getattr(ctx, 'concrete', False):
        return any(bits)
    return Or(*bits)


def std_world(ctx, with_p3=False, c1='optional', child=True, ctypes=False,
              c1_owner=(1, 1)):
    """c1_owner: internal (project id, user id) of consumer 1; (1, 2) makes
    the two surrogate ids differ"""
    w = World(ctx)
    for rc in ('VCPU', 'DISK_GB'):
        w.rc(rc)
    w.rc('CUSTOM_FOO', 10000)
    for t in (T1, T2, STD_TRAIT):
        w.trait(t)
    w.agg(1)
    w.agg(2)
    w.project('proj')
    w.user('user')
    w.project('proj2')
    w.user('user2')
    if ctypes:
        w.consumer_type('INSTANCE')
        w.consumer_type('MIGRATION')
    w.provider(1)
    w.provider(2, parent=1 if child else None)
    if with_p3:
        w.provider(3)
    invs = {}
    for p, rc in ((1, 'VCPU'), (1, 'DISK_GB'), (2, 'VCPU')):
        invs[(p, rc)] = w.inventory(p, rc)['present']
    w.has_trait(1, T1)
    w.in_agg(1, 1)
    # consumers
    bits1 = []
    if c1 != 'absent':
        for p in (1, 2):
            b = conj(ctx, ctx.bool('alloc_c1_p%d_VCPU' % p), invs[(p, 'VCPU')])
            w.allocation(1, p, 'VCPU', present=b)
            bits1.append(b)
        w.consumer(1, present=disj(ctx, *bits1),
                   ctype=(1 if ctypes else None), project=c1_owner[0],
                   user=c1_owner[1])
    b2 = conj(ctx, ctx.bool('alloc_c2_p1_VCPU'), invs[(1, 'VCPU')])
    w.allocation(2, 1, 'VCPU', present=b2)
    w.consumer(2, present=b2, ctype=(1 if ctypes else None))
    w.meta = dict(invs=invs)
    return w


def cgen_value(ctx, name='req_cgen'):
    """consumer_generation: symbolic integer or null"""
    if symex.fork(ctx.bool(name + '_null')):
        return None
    return ctx.int(name)


class Shape:
    def __init__(self, name, request, world=std_world, wkw=None, kind='',
                 version='1.36', expect=(), targets=(), consumers=(),
                 prov=None, project='proj', user='user', ctype=None,
                 attrs=None):
        self.name = name
        self.request = request      # (ctx, w, shape) -> Response
        self.world = world
        self.wkw = wkw or {}
        self.kind = kind
        self.version = version
        self.expect = set(expect)
        self.targets = tuple(targets)      # providers positively placed on
        self.consumers = tuple(consumers)  # consumers the request writes
        self.prov = prov                   # provider whose inv/traits/aggs
        self.project, self.user, self.ctype = project, user, ctype
        # per-consumer (project, user, type) where they differ
        self.attrs = attrs or {}


# ---- allocation shapes ----------------------------------------------------

def _alloc_body(ctx, allocs, version, project='proj', user='user',
                ctype='INSTANCE', cgen='sym', n=1):
    v = tuple(int(x) for x in version.split('.'))
    body = {}
    if v < (1, 12):
        body['allocations'] = [
            {'resource_provider': {'uuid': k}, 'resources': a['resources']}
            for k, a in allocs.items()]
    else:
        body['allocations'] = allocs
    if v >= (1, 8):
        body['project_id'] = project
        body['user_id'] = user
    if v >= (1, 28):
        body['consumer_generation'] = cgen_value(ctx, 'req_cgen%d' % n) \
            if cgen == 'sym' else cgen
    if v >= (1, 38):
        body['consumer_type'] = ctype
    return body


def put_alloc(targets, version='1.36', consumer=1, project='proj',
              user='user', rc='VCPU', ctype='INSTANCE', rcs=None,
              headers=None):
    """PUT /allocations/{c}: targets = list of provider numbers or BAD;
    rcs = several classes asked of every target"""
    def request(ctx, w, shape):
        allocs = {}
        for i, t in enumerate(targets):
            uuid = BAD if t == 'bad' else U(t)
            allocs[uuid] = {'resources': {
                rc: ctx.int('amt_%d' % i)}}
            for c in (rcs or ())[1:]:
                allocs[uuid]['resources'][c] = ctx.int('amt_%d_%s' % (i, c))
        body = _alloc_body(ctx, allocs, version, project, user,
                           ctype=ctype, n=consumer)
        return app.call('PUT', '/allocations/' + CONS(consumer), body,
                        version=version, headers=headers)
    return request


BANDS_PUT = [(0, 7), (8, 11), (12, 27), (28, 33), (34, 37), (38, 39)]
BANDS_POST = [(13, 27), (28, 33), (34, 37), (38, 39)]


def put_alloc_anyversion(targets, post=False):
    """the same write at every microversion: the band (which fixes the
    document format) is an explorer decision, the minor inside the band is
    symbolic"""
    def request(ctx, w, shape):
        bands = BANDS_POST if post else BANDS_PUT
        lo, hi = bands[symex.choose(len(bands))]
        app.sym_minor(ctx, lo, hi)
        version = '1.%d' % lo
        allocs = {}
        for i, t in enumerate(targets):
            uuid = BAD if t == 'bad' else U(t)
            allocs[uuid] = {'resources': {'VCPU': ctx.int('amt_%d' % i)}}
        body = _alloc_body(ctx, allocs, version, n=1)
        if post:
            return app.call('POST', '/allocations', {CONS(1): body},
                            version='sym')
        return app.call('PUT', '/allocations/' + CONS(1), body,
                        version='sym')
    return request


def put_alloc_placeholder_conf(project_id, user_id):
    """PUT below 1.8 (no project/user in the body) under a configured
    [placement] incomplete_consumer_project_id / incomplete_consumer_user_id"""
    inner = put_alloc([1], version='1.0')

    def request(ctx, w, shape):
        ctx.data['conf'] = dict(incomplete_consumer_project_id=project_id,
                                incomplete_consumer_user_id=user_id)
        old = (app.CONF.placement.incomplete_consumer_project_id,
               app.CONF.placement.incomplete_consumer_user_id)
        app.set_conf('placement', incomplete_consumer_project_id=project_id,
                     incomplete_consumer_user_id=user_id)
        try:
            return inner(ctx, w, shape)
        finally:
            app.set_conf('placement', incomplete_consumer_project_id=old[0],
                         incomplete_consumer_user_id=old[1])
    return request


def put_alloc_empty(version='1.36', consumer=1):
    def request(ctx, w, shape):
        body = _alloc_body(ctx, {}, version, n=consumer)
        return app.call('PUT', '/allocations/' + CONS(consumer), body,
                        version=version)
    return request


def post_alloc(entries, version='1.36', attrs=None, rcs=('VCPU',)):
    """POST /allocations: entries = {consumer number: list of targets};
    attrs = {consumer number: (project, user, consumer type)}"""
    def request(ctx, w, shape):
        body = {}
        for n, targets in entries.items():
            allocs = {}
            for i, t in enumerate(targets):
                uuid = BAD if t == 'bad' else U(t)
                allocs[uuid] = {'resources': {
                    c: ctx.int('amt_c%d_%d%s' % (n, i, '' if c == 'VCPU'
                                                 else '_' + c))
                    for c in rcs}}
            pj, us, ct = (attrs or {}).get(n, ('proj', 'user', 'INSTANCE'))
            body[CONS(n)] = _alloc_body(ctx, allocs, version, pj, us,
                                        ctype=ct, n=n)
        return app.call('POST', '/allocations', body, version=version)
    return request


def delete_alloc(consumer=1, version='1.36'):
    def request(ctx, w, shape):
        return app.call('DELETE', '/allocations/' + CONS(consumer),
                        version=version)
    return request


def reshape(move_alloc=True, alloc_target=2, version='1.36', drop=False,
            attrs=('proj', 'user', 'INSTANCE')):
    """POST /reshaper: VCPU inventory moves from p1 to p2 (p1 keeps DISK_GB);
    c1's allocation follows (or not)."""
    def request(ctx, w, shape):
        inv = {
            U(1): {'resource_provider_generation': ctx.int('req_gen1'),
                   'inventories': {} if drop else {
                       'DISK_GB': {'total': ctx.int('rs_total_disk', 1)}}},
            U(2): {'resource_provider_generation': ctx.int('req_gen2'),
                   'inventories': {'VCPU': {
                       'total': ctx.int('rs_total', 1),
                       'max_unit': ctx.int('rs_max', 1)}}},
        }
        allocs = {}
        if move_alloc is not None:
            tgt = BAD if alloc_target == 'bad' else U(alloc_target)
            allocs[CONS(1)] = _alloc_body(
                ctx, {tgt: {'resources': {'VCPU': ctx.int('amt_0')}}}
                if move_alloc else {}, version, attrs[0], attrs[1],
                ctype=attrs[2], n=1)
        return app.call('POST', '/reshaper',
                        {'inventories': inv, 'allocations': allocs},
                        version=version, roles='admin,service')
    return request


# ---- inventory / trait / aggregate shapes ------------------------------------

def _inv_fields(ctx, k, full=True):
    d = {'total': ctx.int('new_total_' + k)}
    if full:
        d.update(reserved=ctx.int('new_reserved_' + k),
                 min_unit=ctx.int('new_min_' + k),
                 max_unit=ctx.int('new_max_' + k),
                 step_size=ctx.int('new_step_' + k),
                 allocation_ratio=ctx.real('new_ratio_' + k))
    return d


def put_inventories(classes=('VCPU',), p=1, version='1.36', full=True,
                    headers=None):
    def request(ctx, w, shape):
        body = {'resource_provider_generation': ctx.int('req_gen'),
                'inventories': {rc: _inv_fields(ctx, rc, full)
                                for rc in classes}}
        return app.call('PUT', '/resource_providers/%s/inventories' % U(p),
                        body, version=version, headers=headers)
    return request


def put_inventory(rc='VCPU', p=1, version='1.36'):
    def request(ctx, w, shape):
        body = dict(_inv_fields(ctx, rc),
                    resource_provider_generation=ctx.int('req_gen'))
        return app.call('PUT', '/resource_providers/%s/inventories/%s'
                        % (U(p), rc), body, version=version)
    return request


def post_inventory(rc='DISK_GB', p=2, version='1.36'):
    def request(ctx, w, shape):
        body = dict(_inv_fields(ctx, rc), resource_class=rc)
        return app.call('POST', '/resource_providers/%s/inventories' % U(p),
                        body, version=version)
    return request


def delete_inventory(rc='VCPU', p=1, version='1.36'):
    def request(ctx, w, shape):
        return app.call('DELETE', '/resource_providers/%s/inventories/%s'
                        % (U(p), rc), version=version)
    return request


def delete_inventories(p=1, version='1.36'):
    def request(ctx, w, shape):
        return app.call('DELETE', '/resource_providers/%s/inventories' % U(p),
                        version=version)
    return request


def put_traits(traits=(T2,), p=1, version='1.36', headers=None):
    def request(ctx, w, shape):
        return app.call('PUT', '/resource_providers/%s/traits' % U(p),
                        {'resource_provider_generation': ctx.int('req_gen'),
                         'traits': list(traits)}, version=version,
                        headers=headers)
    return request


def delete_traits(p=1, version='1.36'):
    def request(ctx, w, shape):
        return app.call('DELETE', '/resource_providers/%s/traits' % U(p),
                        version=version)
    return request


def catalogue(method, url, body=None, version='1.36'):
    """a write to the trait / resource class catalogue"""
    def request(ctx, w, shape):
        return app.call(method, url, body, version=version)
    return request


def put_aggregates(aggs=(2,), p=1, version='1.36', headers=None):
    def request(ctx, w, shape):
        v = tuple(int(x) for x in version.split('.'))
        uu = [AGG(a) for a in aggs]
        body = uu if v < (1, 19) else {
            'resource_provider_generation': ctx.int('req_gen'),
            'aggregates': uu}
        return app.call('PUT', '/resource_providers/%s/aggregates' % U(p),
                        body, version=version, headers=headers)
    return request


# ---- provider / class / trait catalogue shapes ---------------------------

def post_provider(n=5, parent=None, version='1.36', name=None):
    def request(ctx, w, shape):
        body = {'name': name or 'p%d' % n, 'uuid': U(n)}
        if parent is not None:
            body['parent_provider_uuid'] = BAD if parent == 'bad' else \
                U(parent)
        return app.call('POST', '/resource_providers', body, version=version)
    return request


def put_provider(n=2, parent='same', name=None, version='1.37'):
    def request(ctx, w, shape):
        body = {'name': name or 'p%d' % n}
        if parent != 'absent':
            body['parent_provider_uuid'] = None if parent is None else (
                BAD if parent == 'bad' else U(parent))
        return app.call('PUT', '/resource_providers/' + U(n), body,
                        version=version)
    return request


def delete_provider(n=2, version='1.36'):
    def request(ctx, w, shape):
        return app.call('DELETE', '/resource_providers/' + U(n),
                        version=version)
    return request


def simple(method, path, body=None, version='1.36'):
    def request(ctx, w, shape):
        return app.call(method, path, body, version=version)
    return request


def shapes(tier):
    S = Shape
    out = [
        # --- allocation writes
        S('alloc-put', put_alloc([1]), kind='alloc', targets=[1], consumers=[1]),
        S('alloc-put-2p', put_alloc([1, 2]), kind='alloc', targets=[1, 2],
          consumers=[1]),
        S('alloc-put-badrp', put_alloc(['bad']), kind='alloc', consumers=[1]),
        S('alloc-put-2p-badrp-second', put_alloc([1, 'bad']), kind='alloc',
          consumers=[1]),
        S('alloc-put-badclass', put_alloc([1], rc='CUSTOM_NOPE'),
          kind='alloc', consumers=[1]),
        S('alloc-put-noinv-class', put_alloc([2], rc='DISK_GB'),
          kind='alloc', consumers=[1]),
        S('alloc-put-empty', put_alloc_empty(), kind='alloc', consumers=[1]),
        S('alloc-put-newproj', put_alloc([1], project='proj2', user='user2'),
          kind='alloc', targets=[1], consumers=[1], project='proj2',
          user='user2'),
        S('alloc-put-1.12', put_alloc([1], version='1.12'), version='1.12',
          kind='alloc', targets=[1], consumers=[1]),
        S('alloc-put-1.0', put_alloc([1], version='1.0'), version='1.0',
          kind='alloc', targets=[1], consumers=[1], project=None, user=None),
        S('alloc-put-1.0-conf', put_alloc_placeholder_conf('ph-proj',
                                                           'ph-user'),
          version='1.0', kind='alloc', targets=[1], consumers=[1],
          project=None, user=None),
        S('alloc-put-1.0-conf-existing-names',
          put_alloc_placeholder_conf('proj2', 'user2'),
          version='1.0', kind='alloc', targets=[1], consumers=[1],
          project=None, user=None),
        S('alloc-put-1.38', put_alloc([1], version='1.38'), version='1.38',
          kind='alloc', wkw=dict(ctypes=True), targets=[1], consumers=[1],
          ctype='INSTANCE'),
        # every combination of changed consumer attributes in one write
        S('alloc-put-1.38-newtype', put_alloc([1], version='1.38',
                                              ctype='MIGRATION'),
          version='1.38', kind='alloc', wkw=dict(ctypes=True), targets=[1],
          consumers=[1], ctype='MIGRATION'),
        S('alloc-put-1.38-newproj+newtype',
          put_alloc([1], version='1.38', project='proj2', user='user',
                    ctype='MIGRATION'),
          version='1.38', kind='alloc', wkw=dict(ctypes=True), targets=[1],
          consumers=[1], project='proj2', ctype='MIGRATION'),
        S('alloc-put-1.38-newuser+newtype',
          put_alloc([1], version='1.38', project='proj', user='user2',
                    ctype='MIGRATION'),
          version='1.38', kind='alloc', wkw=dict(ctypes=True), targets=[1],
          consumers=[1], user='user2', ctype='MIGRATION'),
        S('alloc-put-anyversion', put_alloc_anyversion([1]), kind='alloc',
          version='sym', wkw=dict(ctypes=True), targets=[1], consumers=[1],
          project=None, user=None),
        S('alloc-post-anyversion', put_alloc_anyversion([1], post=True),
          kind='alloc', version='sym', wkw=dict(ctypes=True), targets=[1],
          consumers=[1]),
        S('alloc-post-2c', post_alloc({1: [1], 3: [1]}), kind='alloc',
          targets=[1], consumers=[1, 3]),
        S('alloc-post-clear+new', post_alloc({1: [], 3: [1]}), kind='alloc',
          targets=[1], consumers=[1, 3]),
        S('alloc-post-new-empty', post_alloc({3: []}), kind='alloc',
          consumers=[3]),
        S('alloc-post-badrp-second', post_alloc({1: [1], 3: ['bad']}),
          kind='alloc', consumers=[1, 3]),
        # an existing consumer re-owned / re-typed in a request whose other
        # entry may be refused at the allocation stage
        S('alloc-post-2c-1.38-newattrs',
          post_alloc({1: [1], 3: [1]}, version='1.38',
                     attrs={1: ('proj2', 'user2', 'MIGRATION')}),
          version='1.38', kind='alloc', wkw=dict(ctypes=True), targets=[1],
          consumers=[1, 3], ctype='INSTANCE',
          attrs={1: ('proj2', 'user2', 'MIGRATION')}),
        S('alloc-post-2c-newowner',
          post_alloc({1: [1], 3: [2]}, attrs={1: ('proj2', 'user', None)}),
          kind='alloc', targets=[1, 2], consumers=[1, 3],
          attrs={1: ('proj2', 'user', None)}),
        # several classes asked of one provider that has only some of them
        S('alloc-put-2classes-p2', put_alloc([2], rcs=('VCPU', 'DISK_GB')),
          kind='alloc', consumers=[1]),
        S('alloc-put-2p-2classes', put_alloc([1, 2], rcs=('VCPU', 'DISK_GB')),
          kind='alloc', consumers=[1]),
        S('alloc-post-2c-2classes',
          post_alloc({1: [1], 3: [2]}, rcs=('VCPU', 'DISK_GB')),
          kind='alloc', consumers=[1, 3]),
        # two consumers that do not exist yet, one of them with nothing
        S('alloc-post-new+new-empty', post_alloc({3: [1], 4: []}),
          kind='alloc', targets=[1], consumers=[3, 4]),
        # the consumer written is owned by (proj, user2): project and user
        # rows with different internal ids; the write names (proj, user)
        S('alloc-put-owner-ids-differ', put_alloc([1]), kind='alloc',
          wkw=dict(c1_owner=(1, 2)), targets=[1], consumers=[1]),
        S('alloc-put-owner-ids-differ-2', put_alloc([1], project='proj2',
                                                    user='user2'),
          kind='alloc', wkw=dict(c1_owner=(2, 1)), targets=[1],
          consumers=[1], project='proj2', user='user2'),
        # a client that does not accept JSON (writes have no body to return
        # or return one regardless)
        S('alloc-put-accept-text', put_alloc([1], headers={
            'accept': 'text/plain'}), kind='alloc', targets=[1],
          consumers=[1]),
        S('alloc-delete', delete_alloc(1), kind='alloc-delete', consumers=[1]),
        S('reshape-move', reshape(True, 2), kind='reshape', targets=[2],
          consumers=[1]),
        S('reshape-move-1.38-newattrs',
          reshape(True, 2, version='1.38',
                  attrs=('proj2', 'user2', 'MIGRATION')),
          version='1.38', kind='reshape', wkw=dict(ctypes=True), targets=[2],
          consumers=[1], project='proj2', user='user2', ctype='MIGRATION'),
        S('reshape-clear', reshape(False), kind='reshape', consumers=[1]),
        S('reshape-noalloc', reshape(None), kind='reshape'),
        S('reshape-badrp', reshape(True, 'bad'), kind='reshape',
          consumers=[1]),
        # --- inventories
        S('inv-put-all', put_inventories(('VCPU',)), kind='inv', prov=1),
        S('inv-put-all-2', put_inventories(('VCPU', 'CUSTOM_FOO'), full=False),
          kind='inv', prov=1),
        S('inv-put-all-badclass', put_inventories(('VCPU', 'CUSTOM_NOPE'),
                                                  full=False), kind='inv', prov=1),
        S('inv-put-all-empty', put_inventories(()), kind='inv', prov=1),
        S('inv-put-all-accept-text', put_inventories(('VCPU',), headers={
            'accept': 'text/plain'}), kind='inv', prov=1),
        S('inv-put-one', put_inventory('VCPU'), kind='inv', prov=1),
        S('inv-post', post_inventory('DISK_GB', 2), kind='inv', prov=2),
        S('inv-post-exists', post_inventory('VCPU', 1), kind='inv', prov=1),
        S('inv-delete', delete_inventory('VCPU'), kind='inv', prov=1),
        S('inv-delete-all', delete_inventories(1), kind='inv', prov=1),
        # --- traits / aggregates
        S('traits-put', put_traits((T2,)), kind='traits', prov=1),
        S('traits-put-same', put_traits((T1,)), kind='traits', prov=1),
        S('traits-put-unknown', put_traits((T2, 'CUSTOM_NOPE')),
          kind='traits', prov=1),
        S('traits-put-empty', put_traits(()), kind='traits', prov=1),
        S('traits-put-accept-text', put_traits((T2,), headers={
            'accept': 'text/plain'}), kind='traits', prov=1),
        S('traits-delete', delete_traits(1), kind='traits', prov=1),
        S('aggs-put', put_aggregates((2,)), kind='aggs', prov=1),
        S('aggs-put-new', put_aggregates((1, 3)), kind='aggs', prov=1),
        S('aggs-put-empty', put_aggregates(()), kind='aggs', prov=1),
        S('aggs-put-accept-text', put_aggregates((2,), headers={
            'accept': 'text/plain'}), kind='aggs', prov=1),
        S('aggs-put-1.1', put_aggregates((2,), version='1.1'), version='1.1',
          kind='aggs', prov=1),
        # --- the catalogue of traits and resource classes
        S('class-put-new', catalogue('PUT', '/resource_classes/CUSTOM_NEW'),
          kind='catalogue'),
        S('class-put-existing',
          catalogue('PUT', '/resource_classes/CUSTOM_FOO'), kind='catalogue'),
        S('class-post-new', catalogue('POST', '/resource_classes',
                                      {'name': 'CUSTOM_NEW'}),
          kind='catalogue'),
        S('class-delete', catalogue('DELETE', '/resource_classes/CUSTOM_FOO'),
          kind='catalogue'),
        S('trait-put-new', catalogue('PUT', '/traits/CUSTOM_NEW'),
          kind='catalogue'),
        S('trait-delete-unused', catalogue('DELETE', '/traits/' + T2),
          kind='catalogue'),
        S('trait-delete-maybe-used', catalogue('DELETE', '/traits/' + T1),
          kind='catalogue'),
    ]
    return out


ALLOC_FUNCS = [
    'placement.handlers.allocation.*', 'placement.handlers.reshaper.reshape',
    'placement.handlers.util.*', 'placement.objects.allocation.*',
    'placement.objects.consumer.*', 'placement.objects.project.*',
    'placement.objects.user.*', 'placement.objects.consumer_type.*',
    'placement.objects.reshaper.reshape']
INV_FUNCS = [
    'placement.handlers.inventory.*', 'placement.handlers.trait.*',
    'placement.handlers.aggregate.*',
    'placement.objects.resource_provider._set_inventory/_add_inventory/'
    '_update_inventory/_delete_inventory/_set_traits/_set_aggregates/'
    'increment_generation',
    'placement.objects.inventory.*', 'placement.objects.trait.*']


def make_family(shape, asserts, prefix='', alias=None):
    """asserts: list of f(ctx, shape, w, pre, post, resp); alias: consumer
    number -> uuid it carries instead of its own (identifier spaces are
    independent: a consumer may have the uuid of a provider)"""
    from engine import runner, scenario

    def path(ctx):
        scenario.CONS_ALIAS.clear()
        scenario.CONS_ALIAS.update(alias or {})
        try:
            return path_(ctx)
        finally:
            scenario.CONS_ALIAS.clear()

    def path_(ctx):
        app.setup()
        with shape.world(ctx, **shape.wkw) as w:
            pre = w.dump()
            r = shape.request(ctx, w, shape)
            post = w.dump()
            for a in asserts:
                a(ctx, shape, w, pre, post, r)
            return runner.finish(ctx, str(r.status))
    return runner.Family(prefix + shape.name, path, expect=shape.expect,
                         bounds=dict(world=shape.world.__name__,
                                     kind=shape.kind, version=shape.version))
