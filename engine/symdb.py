"""Symbolic database: bounded tables whose cells may be z3-backed proxies and
whose rows carry a presence condition, plus an interpreter for the SQLAlchemy
Core / ORM statement objects that the real placement code builds.

Schema comes from placement.db.sqlalchemy.models.BASE.metadata at run time.
With all cells concrete the same code is an ordinary (tiny) SQL interpreter;
that mode is differentially validated against SQLite (engine/tv.py).
"""
import datetime
import os
import operator

import sqlalchemy as sa
from sqlalchemy.sql import elements as el
from sqlalchemy.sql import selectable as sel
from sqlalchemy.sql import functions as fn
from sqlalchemy.sql import operators as ops
from sqlalchemy.sql import dml
from sqlalchemy.orm import Query
import z3

from engine import symex
from engine.symex import Sym, SymNum, SymBool, wrap, fork, to_z3


# --------------------------------------------------------------------------
# three-valued helpers.  Truth values are python bool or z3 BoolRef.

def zb(v):
    if isinstance(v, Sym):
        return v.z
    return v


def And(*xs):
    ys = []
    for x in xs:
        x = zb(x)
        if x is True:
            continue
        if x is False:
            return False
        ys.append(x)
    if not ys:
        return True
    if len(ys) == 1:
        return ys[0]
    r = z3.simplify(z3.And(*ys))
    if z3.is_true(r):
        return True
    if z3.is_false(r):
        return False
    return r


def Or(*xs):
    ys = []
    for x in xs:
        x = zb(x)
        if x is False:
            continue
        if x is True:
            return True
        ys.append(x)
    if not ys:
        return False
    if len(ys) == 1:
        return ys[0]
    r = z3.simplify(z3.Or(*ys))
    if z3.is_true(r):
        return True
    if z3.is_false(r):
        return False
    return r


def Not(x):
    x = zb(x)
    if isinstance(x, bool):
        return not x
    r = z3.simplify(z3.Not(x))
    if z3.is_true(r):
        return True
    if z3.is_false(r):
        return False
    return r


def zbool(c):
    return z3.BoolVal(c) if isinstance(c, bool) else c


def eq(a, b):
    """SQL equality on non-null operands -> truth value"""
    if isinstance(a, Sym) or isinstance(b, Sym):
        if isinstance(a, (str, bytes)) or isinstance(b, (str, bytes)):
            return False
        return zb(a == b)
    return a == b


def count_true(conds):
    """number of true conditions -> python int or SymNum"""
    k = sum(1 for c in conds if c is True)
    sym = [z3.If(c, 1, 0) for c in conds if c is not True and c is not False]
    if not sym:
        return k
    return wrap(z3.Sum(*sym) + k if len(sym) > 1 else sym[0] + k)


NULL = (True, None)


def nn(v):
    return (False, v)


def sqlval(v):
    """python cell -> (isnull, val)"""
    if isinstance(v, tuple):
        return v
    if v is None:
        return NULL
    return (False, v)


def cell(nv):
    """(isnull, val) -> storage cell (None for definite NULL, tuple if the
    null flag is symbolic)"""
    n, v = nv
    if n is True:
        return None
    if n is False:
        return v
    return (n, v)


def sym_ite(c, a, b):
    """if c then a else b over non-null cell values"""
    if c is True:
        return a
    if c is False:
        return b
    if a is b:
        return a
    num = lambda x: isinstance(x, (int, float, SymNum)) and \
        not isinstance(x, bool)
    if num(a) and num(b):
        return symex.ite(c, a, b)
    boo = lambda x: isinstance(x, (bool, SymBool, z3.BoolRef))
    if boo(a) and boo(b):
        return wrap(z3.If(c, to_z3(a), to_z3(b)))
    if not isinstance(a, Sym) and not isinstance(b, Sym) and a == b:
        return a
    raise NotImplementedError('symbolic choice between %r and %r' % (a, b))


def ite_nv(c, a, b):
    """if c then a else b over (isnull, val) pairs"""
    if c is True:
        return a
    if c is False:
        return b
    (an, av), (bn, bv) = a, b
    n = Or(And(c, an), And(Not(c), bn))
    if n is True:
        return NULL
    if an is True and bv is not None:
        return (n, bv)
    if bn is True or bv is None:
        return (n, av)
    if av is None:
        return (n, bv)
    return (n, sym_ite(c, av, bv))


# --------------------------------------------------------------------------

STORED_INT_BOUND = 2 ** 62


class Row:
    __slots__ = ('present', 'vals')

    def __init__(self, present, vals):
        self.present = present
        self.vals = vals

    def copy(self):
        return Row(self.present, dict(self.vals))


class Tables:
    """One version of the database content."""

    def __init__(self, tables=None, next_id=None):
        self.tables = tables or {}
        self.next_id = next_id or {}

    def copy(self):
        return Tables({k: [r.copy() for r in v if r.present is not False]
                       for k, v in self.tables.items()}, dict(self.next_id))


class SymDB:
    def __init__(self, metadata, id_base=1000):
        self.metadata = metadata
        self.committed = Tables(
            {t.name: [] for t in metadata.sorted_tables},
            {t.name: id_base for t in metadata.sorted_tables})
        self.log = []            # (session id, kind, table) access log
        self.stmt_count = 0
        self.commit_count = 0
        self.hooks = None        # object with on_begin/on_execute/on_commit

    @property
    def tables(self):
        return self.committed.tables

    def add(self, tname, present=True, **vals):
        t = self.metadata.tables[tname]
        full = {}
        for c in t.columns:
            d = c.default
            full[c.name] = None if d is None else (
                d.arg if d.is_scalar else d.arg(None) if d.is_callable
                else None)
        for k in vals:
            if k not in full:
                raise KeyError(k)
        full.update(vals)
        # scope of every claim: stored integers are far from the ends of the
        # signed 64-bit range (a counter such as a generation does not run
        # out); stated in the evidence as an assumption
        cur = symex.PathCtx.cur
        if cur is not None:
            for v in vals.values():
                if isinstance(v, SymNum) and \
                        to_z3(v).sort() == z3.IntSort():
                    cur.assume(z3.And(to_z3(v) >= -STORED_INT_BOUND,
                                      to_z3(v) <= STORED_INT_BOUND))
        self.committed.tables[tname].append(Row(present, full))
        pk = list(t.primary_key.columns)
        if len(pk) == 1 and isinstance(full[pk[0].name], int):
            self.committed.next_id[tname] = max(
                self.committed.next_id[tname], full[pk[0].name] + 1)

    def snapshot(self):
        return self.committed.copy()

    def restore(self, snap):
        self.committed = snap.copy()


def _fkey(f):
    """environment key of a FROM element (robust against ORM annotation)"""
    if isinstance(f, sa.Table):
        return ('T', f.name)
    return ('A', str(f.name))


class Evaluator:
    def __init__(self, view, params=None):
        self.view = view          # Tables
        self.params = params or {}

    # ---- FROM -> list of (cond, env)
    def eval_from(self, f):
        if isinstance(f, sa.Table):
            return [(r.present, {('T', f.name): r.vals})
                    for r in self.view.tables[f.name]
                    if r.present is not False]
        if isinstance(f, sel.Subquery):
            rows = self.eval_select(f.element)
            names = [c.key for c in f.element.selected_columns]
            k = _fkey(f)
            return [(c, {k: dict(zip(names, vals))}) for c, vals in rows]
        if isinstance(f, sel.Alias):
            inner = self.eval_from(f.element)
            k = _fkey(f)
            ik = _fkey(f.element)
            return [(c, {k: env[ik]}) for c, env in inner]
        if isinstance(f, sel.Join):
            left = self.eval_from(f.left)
            right = self.eval_from(f.right)
            rkeys = self._from_keys(f.right)
            out = []
            for lc, lenv in left:
                matches = []
                for rc, renv in right:
                    env = dict(lenv)
                    env.update(renv)
                    on = True if f.onclause is None else \
                        self.truth(self.eval(f.onclause, env))
                    c = And(lc, rc, on)
                    if c is False:
                        continue
                    matches.append(And(rc, on))
                    out.append((c, env))
                if f.isouter:
                    env = dict(lenv)
                    for k in rkeys:
                        env[k] = None
                    c = And(lc, Not(Or(*matches)))
                    if c is not False:
                        out.append((c, env))
            return out
        raise NotImplementedError('FROM %s' % type(f))

    def _from_keys(self, f):
        if isinstance(f, sel.Join):
            return self._from_keys(f.left) + self._from_keys(f.right)
        return [_fkey(f)]

    # ---- expressions; values are (isnull, val)
    def truth(self, v):
        isnull, val = v
        if isnull is True:
            return False
        return And(Not(isnull), val)

    def eval(self, e, env):
        if isinstance(e, (el.Grouping, el.Label)):
            return self.eval(e.element, env)
        if isinstance(e, el.ColumnClause):   # incl. Column
            t = e.table
            if t is None:
                raise NotImplementedError('table-less column %s' % e)
            rowvals = env[_fkey(t)]
            if rowvals is None:
                return NULL
            return sqlval(rowvals[e.key if e.key in rowvals else e.name])
        if isinstance(e, el.BindParameter):
            v = self.params.get(e.key, e.value) if self.params else e.value
            if callable(getattr(e, 'callable', None)) and e.value is None:
                v = e.callable()
            return sqlval(v)
        if isinstance(e, el.Null):
            return NULL
        if isinstance(e, el.True_):
            return nn(True)
        if isinstance(e, el.False_):
            return nn(False)
        if isinstance(e, el.BooleanClauseList):
            vals = [self.eval(c, env) for c in e.clauses]
            if e.operator is operator.and_:
                anyfalse = Or(*[And(Not(n), Not(v)) for n, v in vals
                                if n is not True])
                anynull = Or(*[n for n, v in vals])
                return (And(Not(anyfalse), anynull), Not(anyfalse))
            elif e.operator is operator.or_:
                anytrue = Or(*[And(Not(n), v) for n, v in vals
                               if n is not True])
                anynull = Or(*[n for n, v in vals])
                return (And(Not(anytrue), anynull), anytrue)
            raise NotImplementedError(e.operator)
        if isinstance(e, el.UnaryExpression):
            if e.operator is operator.inv:
                n, v = self.eval(e.element, env)
                return (n, Not(v) if n is not True else None)
            if e.operator is ops.distinct_op:
                return self.eval(e.element, env)
            if e.modifier in (ops.desc_op, ops.asc_op):
                return self.eval(e.element, env)
            raise NotImplementedError('unary %s' % e.operator)
        if isinstance(e, el.BinaryExpression):
            return self._binary(e, env)
        if isinstance(e, fn.FunctionElement):
            if e.name == 'coalesce':
                args = [self.eval(c, env) for c in e.clauses]
                return self._coalesce(args)
            raise NotImplementedError('function %s' % e.name)
        if isinstance(e, sel.ScalarSelect):
            rows = self.eval_select(e.element)
            if len(rows) == 0:
                return NULL
            if len(rows) == 1 and rows[0][0] is True:
                return rows[0][1][0]
            raise NotImplementedError('symbolic scalar subquery')
        raise NotImplementedError('expression %s' % type(e))

    def _coalesce(self, args):
        res = args[-1]
        for a in reversed(args[:-1]):
            an, av = a
            if an is False:
                res = a
            elif an is True:
                pass
            else:
                res = ite_nv(an, res, (False, av))
        return res

    def _in_items(self, right, env):
        if isinstance(right, el.BindParameter):
            items = self.params.get(right.key, right.value) \
                if self.params else right.value
            return [sqlval(i) for i in items]
        if isinstance(right, (el.ClauseList, el.Tuple)):
            return [self.eval(c, env) for c in right.clauses]
        if isinstance(right, el.Grouping):
            return self._in_items(right.element, env)
        if isinstance(right, (sel.ScalarSelect, sel.Select)):
            s = right.element if isinstance(right, sel.ScalarSelect) else right
            rows = self.eval_select(s)
            out = []
            for c, vals in rows:
                n, v = vals[0]
                # an absent row contributes NULL-like "no item": encode by
                # making the item null when the row is absent
                out.append((Or(Not(c), n), v))
            return out
        raise NotImplementedError('IN over %s' % type(right))

    def _binary(self, e, env):
        op = e.operator
        if op in (ops.in_op, ops.not_in_op):
            ln, lv = self.eval(e.left, env)
            items = self._in_items(e.right, env)
            if ln is True:
                return NULL
            hit = Or(*[And(Not(n), eq(lv, v)) for n, v in items
                       if n is not True])
            # NULL items make a non-hit unknown; placement never passes
            # NULL inside IN lists, subquery rows that are absent are
            # encoded as null items and must simply not match
            res = hit if op is ops.in_op else Not(hit)
            return (ln, res)
        if op in (ops.is_, ops.is_not):
            ln, lv = self.eval(e.left, env)
            rn, rv = self.eval(e.right, env)
            if rn is True:
                return nn(ln if op is ops.is_ else Not(ln))
            same = Or(And(ln, rn), And(Not(ln), Not(rn), eq(lv, rv)))
            return nn(same if op is ops.is_ else Not(same))
        if op is ops.like_op:
            ln, lv = self.eval(e.left, env)
            rn, rv = self.eval(e.right, env)
            if ln is True or rn is True:
                return NULL
            if not isinstance(lv, str) or not isinstance(rv, str):
                raise NotImplementedError('LIKE on symbolic')
            import re
            # LIKE: % any run, _ one char.  SQLite's LIKE is ASCII
            # case-insensitive, MySQL's default collation too.
            esc = (getattr(e, 'modifiers', None) or {}).get('escape')
            rx, it = '', iter(rv)
            for ch in it:
                if esc and ch == esc:
                    # LIKE ... ESCAPE: the next character stands for itself
                    rx += re.escape(next(it, ''))
                elif ch == '%':
                    rx += '.*'
                elif ch == '_':
                    rx += '.'
                else:
                    rx += re.escape(ch)
            return (Or(ln, rn),
                    re.fullmatch(rx, lv, re.S | re.I) is not None)
        ln, lv = self.eval(e.left, env)
        rn, rv = self.eval(e.right, env)
        isnull = Or(ln, rn)
        if isnull is True:
            return NULL
        if op is operator.eq:
            return (isnull, eq(lv, rv))
        if op is operator.ne:
            return (isnull, Not(eq(lv, rv)))
        f = {operator.add: operator.add, operator.sub: operator.sub,
             operator.mul: operator.mul, operator.mod: operator.mod,
             operator.le: operator.le, operator.lt: operator.lt,
             operator.ge: operator.ge, operator.gt: operator.gt}.get(op)
        if f is None:
            raise NotImplementedError('operator %s' % op)
        r = f(lv, rv)
        if isinstance(r, Sym):
            r = r.z if isinstance(r, SymBool) else r
        return (isnull, r)

    # ---- SELECT -> list of (cond, tuple of (isnull,val))
    def eval_select(self, s):
        if isinstance(s, sel.CompoundSelect):
            raise NotImplementedError('compound select')
        froms = s.get_final_froms()
        rows = [(True, {})]
        for f in froms:
            fr = self.eval_from(f)
            new = []
            for c1, e1 in rows:
                for c2, e2 in fr:
                    c = And(c1, c2)
                    if c is False:
                        continue
                    env = dict(e1)
                    env.update(e2)
                    new.append((c, env))
            rows = new
        for w in s._where_criteria:
            new = []
            for c, env in rows:
                c2 = And(c, self.truth(self.eval(w, env)))
                if c2 is not False:
                    new.append((c2, env))
            rows = new
        cols = list(s._raw_columns)
        cols = self._expand_cols(cols)
        has_agg = any(self._has_agg(c) for c in cols) or \
            any(self._has_agg(h) for h in s._having_criteria)
        if s._group_by_clauses or has_agg:
            out = self._grouped(s, rows, cols)
        else:
            out = [(c, tuple(self.eval(col, env) for col in cols), env)
                   for c, env in rows]
            if s._order_by_clauses:
                out = self._order(out, s._order_by_clauses)
            out = [(c, vals) for c, vals, env in out]
        if s._distinct:
            out = self._distinct(out)
        if s._limit_clause is not None:
            out = self._limit(out, self.eval(s._limit_clause, {})[1])
        return out

    def _expand_cols(self, cols):
        out = []
        for c in cols:
            if isinstance(c, (sa.Table, sel.Alias)):
                out.extend(list(c.c))
            else:
                out.append(c)
        return out

    def _order(self, out, clauses):
        keys = []
        for c, vals, env in out:
            k = []
            for ob in clauses:
                desc = isinstance(ob, el.UnaryExpression) and \
                    ob.modifier is ops.desc_op
                n, v = self.eval(ob, env)
                if isinstance(n, z3.ExprRef) or isinstance(v, Sym):
                    return out      # symbolic sort key: order unspecified
                k.append((n is not True, v, desc))
            keys.append(k)
        idx = list(range(len(out)))
        for pos in reversed(range(len(clauses))):
            desc = keys[0][pos][2] if keys else False
            idx.sort(key=lambda i: (keys[i][pos][0], keys[i][pos][1]
                                    if keys[i][pos][0] else 0),
                     reverse=desc)
        return [out[i] for i in idx]

    def _limit(self, out, lim):
        new = []
        prev = []
        for c, vals in out:
            if isinstance(lim, int) and len([p for p in prev if p is True]) >= lim:
                break
            c2 = And(c, zb(count_true(prev) < lim)) if prev else \
                (c if not isinstance(lim, int) or lim > 0 else False)
            prev.append(c)
            if c2 is not False:
                new.append((c2, vals))
        return new

    def _distinct(self, out):
        new = []
        for i, (c, vals) in enumerate(out):
            dup = []
            for c0, v0 in out[:i]:
                same = And(c0, *[self._same(a, b) for a, b in zip(vals, v0)])
                if same is not False:
                    dup.append(same)
            c2 = And(c, Not(Or(*dup)))
            if c2 is not False:
                new.append((c2, vals))
        return new

    def _same(self, a, b):
        (an, av), (bn, bv) = a, b
        if an is True and bn is True:
            return True
        if an is True or bn is True:
            return And(an, bn)
        return Or(And(an, bn), And(Not(an), Not(bn), eq(av, bv)))

    def _has_agg(self, e):
        if isinstance(e, fn.FunctionElement):
            if e.name in ('sum', 'count', 'max', 'min'):
                return True
            return any(self._has_agg(c) for c in e.clauses)
        if isinstance(e, (el.Label, el.Grouping)):
            return self._has_agg(e.element)
        if isinstance(e, el.BinaryExpression):
            return self._has_agg(e.left) or self._has_agg(e.right)
        if isinstance(e, el.BooleanClauseList):
            return any(self._has_agg(c) for c in e.clauses)
        return False

    def _grouped(self, s, rows, cols):
        gb = list(s._group_by_clauses)
        symbolic_key = False
        keyed = []
        for c, env in rows:
            key = []
            for g in gb:
                n, v = self.eval(g, env)
                if isinstance(n, z3.ExprRef) or isinstance(v, Sym):
                    symbolic_key = True
                key.append((n, v))
            keyed.append((c, env, key))
        groups = []     # (group condition, members[(cond, env)])
        if not gb:
            groups.append((True, [(c, env) for c, env, _ in keyed]))
        elif not symbolic_key:
            d = {}
            for c, env, key in keyed:
                k = tuple(None if n is True else v for n, v in key)
                d.setdefault(k, []).append((c, env))
            for k, members in d.items():
                groups.append((Or(*[c for c, _ in members]), members))
        else:
            # general case: row i represents a group iff it is present and
            # no earlier present row has the same key
            for i, (c, env, key) in enumerate(keyed):
                earlier = []
                for c0, env0, key0 in keyed[:i]:
                    earlier.append(And(c0, *[self._same(a, b)
                                             for a, b in zip(key, key0)]))
                rep = And(c, Not(Or(*earlier)))
                if rep is False:
                    continue
                members = []
                for c1, env1, key1 in keyed:
                    m = And(c1, *[self._same(a, b)
                                  for a, b in zip(key, key1)])
                    if m is not False:
                        members.append((m, env1))
                # first member env must be the representative's for
                # group-by column projection
                members.sort(key=lambda me: me[1] is not env)
                groups.append((rep, members))
        out = []
        for gcond, members in groups:
            for h in s._having_criteria:
                gcond = And(gcond, self.truth(self._eval_agg(h, members)))
            if gcond is False:
                continue
            vals = tuple(self._eval_agg(col, members) for col in cols)
            out.append((gcond, vals))
        return out

    def _eval_agg(self, e, members):
        if isinstance(e, (el.Label, el.Grouping)):
            return self._eval_agg(e.element, members)
        if isinstance(e, fn.FunctionElement) and e.name == 'sum':
            arg = list(e.clauses)[0]
            terms = []
            nonnull = []
            for c, env in members:
                n, v = self.eval(arg, env)
                ok = And(c, Not(n))
                if ok is False:
                    continue
                nonnull.append(ok)
                terms.append(v if ok is True else symex.ite(ok, v, 0))
            if not terms:
                return NULL
            total = terms[0]
            for t in terms[1:]:
                total = total + t
            return (Not(Or(*nonnull)), total)
        if isinstance(e, fn.FunctionElement) and e.name == 'count':
            args = list(e.clauses)
            if not args or isinstance(args[0], el.TextClause) or str(args[0]) == '*':
                return nn(count_true([c for c, _ in members]))
            arg = args[0]
            distinct = isinstance(arg, el.UnaryExpression) and \
                arg.operator is ops.distinct_op
            items = []
            for c, env in members:
                n, v = self.eval(arg, env)
                ok = And(c, Not(n))
                if ok is not False:
                    items.append((ok, v))
            if not distinct:
                return nn(count_true([c for c, _ in items]))
            conds = []
            for i, (c, v) in enumerate(items):
                dup = Or(*[And(c0, eq(v, v0)) for c0, v0 in items[:i]])
                conds.append(And(c, Not(dup)))
            return nn(count_true([c for c in conds if c is not False]))
        if isinstance(e, fn.FunctionElement) and e.name in ('max', 'min'):
            arg = list(e.clauses)[0]
            items = []
            for c, env in members:
                n, v = self.eval(arg, env)
                ok = And(c, Not(n))
                if ok is not False:
                    items.append((ok, v))
            if not items:
                return NULL
            better = operator.gt if e.name == 'max' else operator.lt
            isnull = Not(Or(*[c for c, _ in items]))
            best = None     # (have, value)
            for c, v in items:
                if best is None:
                    best = (c, v)
                    continue
                have, bv = best
                take = And(c, Or(Not(have), zb(better(v, bv))))
                best = (Or(have, c), sym_ite(take, v, bv))
            return (isnull, best[1])
        if isinstance(e, fn.FunctionElement) and e.name == 'coalesce':
            return self._coalesce([self._eval_agg(c, members)
                                   for c in e.clauses])
        if isinstance(e, el.BinaryExpression):
            ln, lv = self._eval_agg(e.left, members)
            rn, rv = self._eval_agg(e.right, members)
            isnull = Or(ln, rn)
            if isnull is True:
                return NULL
            f = {operator.eq: eq, operator.ne: lambda a, b: Not(eq(a, b)),
                 operator.add: operator.add, operator.sub: operator.sub,
                 operator.le: operator.le, operator.lt: operator.lt,
                 operator.ge: operator.ge, operator.gt: operator.gt}[e.operator]
            return (isnull, zb(f(lv, rv)))
        if isinstance(e, (el.BindParameter, el.Null)):
            return self.eval(e, {})
        if isinstance(e, el.ColumnClause):
            if not members:
                return NULL
            return self.eval(e, members[0][1])
        raise NotImplementedError('aggregate over %s' % type(e))


# --------------------------------------------------------------------------
# results

from sqlalchemy.engine.result import SimpleResultMetaData
from sqlalchemy.engine.row import Row as _SARow

_MD = {}


def ResultRow(vals, names):
    """A real sqlalchemy Row (so isinstance checks, ._mapping, attribute and
    index access behave exactly as with a real result)."""
    key = tuple(names)
    md = _MD.get(key)
    if md is None:
        md = _MD[key] = SimpleResultMetaData(
            [n if n is not None else '_anon%d' % i
             for i, n in enumerate(names)])
    return _SARow(md, md._processors, md._key_to_index, tuple(vals))


def materialize(v, name=None):
    n, val = v
    if fork(n):
        return None
    if isinstance(val, z3.BoolRef):
        return wrap(val)
    if isinstance(val, SymNum) and name is not None and (
            name == 'id' or name.endswith('_id')) and _finite_valued(val.z):
        # an identifier that is a choice among constants (the result of an
        # UPDATE under a symbolic condition) indexes dicts in the code under
        # test: split into its cases
        return symex.concretize(val)
    return val


def _finite_valued(t, depth=0):
    if z3.is_int_value(t):
        return True
    if depth < 8 and z3.is_app(t) and t.decl().kind() == z3.Z3_OP_ITE:
        return _finite_valued(t.arg(1), depth + 1) and \
            _finite_valued(t.arg(2), depth + 1)
    return False


class Result:
    def __init__(self, rows=None, names=None, rowcount=-1, lastrowid=None):
        self._rows = rows or []
        self._names = names or []
        self.rowcount = rowcount
        self.lastrowid = lastrowid
        self.inserted_primary_key = (lastrowid,)
        self._mat = None

    def _materialize(self):
        if self._mat is None:
            out = []
            for c, vals in self._rows:
                if fork(c):
                    out.append(ResultRow(
                        [materialize(v, n) for v, n in zip(vals, self._names)],
                        self._names))
            self._mat = out
        return self._mat

    def fetchall(self):
        return list(self._materialize())
    all = fetchall

    def __iter__(self):
        return iter(self._materialize())

    def fetchone(self):
        if self._mat is None:
            # only look as far as the first present row
            for c, vals in self._rows:
                if fork(c):
                    return ResultRow(
                        [materialize(v, n) for v, n in zip(vals, self._names)],
                        self._names)
            return None
        return self._mat[0] if self._mat else None
    first = fetchone

    def one(self):
        m = self._materialize()
        if len(m) != 1:
            from sqlalchemy.exc import NoResultFound, MultipleResultsFound
            raise (NoResultFound if not m else MultipleResultsFound)()
        return m[0]

    def scalar(self):
        r = self.fetchone()
        return r[0] if r is not None else None

    def scalars(self):
        return [r[0] for r in self._materialize()]

    def mappings(self):
        return [r._mapping for r in self._materialize()]

    def close(self):
        pass


# --------------------------------------------------------------------------
# ORM facade

class SymQuery(Query):
    """The real code builds a real Query; only terminal methods are ours."""

    def _ss(self):
        return self.__dict__['_symsession']

    def _entity_model(self):
        ents = self._raw_columns
        if len(ents) == 1 and isinstance(ents[0], sa.Table):
            for m in self._ss().models:
                if m.__table__.name == ents[0].name:
                    return m
        return None

    def _result(self):
        self._ss().flush()      # Session autoflush=True (oslo.db default)
        return self._ss().execute(self.statement)

    def all(self):
        model = self._entity_model()
        rows = self._result().fetchall()
        if model is None:
            return rows
        return [self._ss()._hydrate(model, r) for r in rows]

    def __iter__(self):
        return iter(self.all())

    def first(self):
        model = self._entity_model()
        r = self._result().fetchone()
        if r is None or model is None:
            return r
        return self._ss()._hydrate(model, r)

    def one(self):
        r = self.all()
        if len(r) != 1:
            from sqlalchemy.exc import NoResultFound, MultipleResultsFound
            raise (NoResultFound if not r else MultipleResultsFound)()
        return r[0]

    def one_or_none(self):
        r = self.all()
        return r[0] if r else None

    def scalar(self):
        r = self._result().fetchone()
        return r[0] if r is not None else None

    def count(self):
        ss = self._ss()
        ss.flush()
        ss._account(self.statement)
        ev = Evaluator(ss.view)
        rows = ev.eval_select(self.statement)
        return count_true([c for c, _ in rows])

    def delete(self, synchronize_session=None):
        self._ss().flush()
        stmt = sa.delete(sa.inspect(self._entity_model()).local_table)
        for w in self.statement._where_criteria:
            stmt = stmt.where(w)
        return self._ss().execute(stmt).rowcount

    def update(self, values, synchronize_session=None):
        self._ss().flush()
        t = sa.inspect(self._entity_model()).local_table
        stmt = sa.update(t).values(**values)
        for w in self.statement._where_criteria:
            stmt = stmt.where(w)
        return self._ss().execute(stmt).rowcount


class _Nested:
    def __init__(self, session):
        self.s = session

    def __enter__(self):
        self.s.flush()
        self.snap = self.s.view.copy()
        return self

    def __exit__(self, et, ev, tb):
        if et is not None:
            self.s.view = self.snap
            self.s._pending = []
        else:
            self.s.flush()
        return False

    def commit(self):
        self.s.flush()

    def rollback(self):
        self.s.view = self.snap


class SymSession:
    """Quacks like the subset of sqlalchemy.orm.Session that placement and
    oslo.db's enginefacade use."""

    _seq = 0

    def __init__(self, db, mode=None):
        from placement.db.sqlalchemy import models as _m
        self.db = db
        self.mode = mode
        self.info = {}
        self.view = None
        self.dirty = False
        self.models = [m.class_ for m in _m.BASE.registry.mappers]
        self._pending = []
        self._persistent = {}
        SymSession._seq += 1
        self.sid = SymSession._seq
        self.reads = set()
        self.writes = set()

    # --- transaction
    def begin(self):
        h = self.db.hooks
        if h is not None:
            h.on_begin(self)
        self.view = self.db.committed.copy()
        self.dirty = False
        return self

    def begin_nested(self):
        return _Nested(self)

    def commit(self):
        self.flush()
        h = self.db.hooks
        if h is not None:
            h.on_commit(self)
        if self.dirty and self.view is not None:
            self.db.committed = self.view
            self.db.commit_count += 1
        # a commit inside a still open scope: the next statement starts a
        # new transaction (autobegin), as with a real Session
        self.dirty = False
        self.view = None
        if h is not None and hasattr(h, 'after_commit'):
            h.after_commit(self)

    def rollback(self):
        self.view = None
        self._pending = []
        self._persistent = {}
        h = self.db.hooks
        if h is not None and hasattr(h, 'on_rollback'):
            h.on_rollback(self)

    def close(self):
        self.view = None
        self._pending = []
        self._persistent = {}
        h = self.db.hooks
        if h is not None and hasattr(h, 'on_end'):
            h.on_end(self)

    def in_transaction(self):
        return self.view is not None

    def connection(self):
        # only used to ask for the dialect name (resource class sync)
        class _Dialect:
            name = 'sqlite'

        class _Engine:
            dialect = _Dialect()

        class _Conn:
            engine = _Engine()

            def execute(self, *a, **k):
                raise NotImplementedError('raw connection execute')
        return _Conn()

    # --- ORM
    def query(self, *ents):
        q = SymQuery(list(ents))
        q.__dict__['_symsession'] = self
        return q

    def _cols(self, obj):
        return [c.name for c in obj.__table__.columns]

    def _hydrate(self, model, row):
        names = [c.name for c in model.__table__.columns]
        vals = dict(zip(names, row))
        pk = {c.name: vals[c.name]
              for c in model.__table__.primary_key.columns}
        # identity map, as in a real Session
        for obj, opk, snap in self._persistent.values():
            if type(obj) is model and all(
                    not isinstance(v, Sym) and opk.get(k) == v
                    for k, v in pk.items()):
                return obj
        obj = model()
        for n, v in vals.items():
            setattr(obj, n, v)
        self._persistent[id(obj)] = (
            obj, pk, {n: getattr(obj, n) for n in names})
        return obj

    def add(self, obj):
        if id(obj) not in self._persistent and \
                not any(o is obj for o in self._pending):
            self._pending.append(obj)

    def refresh(self, obj):
        pass

    def expunge(self, obj):
        self._persistent.pop(id(obj), None)

    def flush(self):
        pend, self._pending = self._pending, []
        for obj in pend:
            t = obj.__table__
            vals = {n: getattr(obj, n) for n in self._cols(obj)
                    if getattr(obj, n, None) is not None}
            res = self.execute(t.insert().values(**vals))
            pkcols = list(t.primary_key.columns)
            if len(pkcols) == 1 and getattr(obj, pkcols[0].name) is None:
                setattr(obj, pkcols[0].name, res.lastrowid)
            for c in t.columns:
                if getattr(obj, c.name, None) is None:
                    setattr(obj, c.name, res._inserted.get(c.name))
            pk = {c.name: getattr(obj, c.name) for c in pkcols}
            self._persistent[id(obj)] = (
                obj, pk, {n: getattr(obj, n) for n in self._cols(obj)})
        for key, (obj, pk, snap) in list(self._persistent.items()):
            changed = {}
            for n in snap:
                new = getattr(obj, n)
                old = snap[n]
                if new is old:
                    continue
                if isinstance(new, Sym) or isinstance(old, Sym):
                    changed[n] = new
                elif new != old:
                    changed[n] = new
            if changed:
                t = obj.__table__
                stmt = t.update().values(**changed)
                for k, v in pk.items():
                    stmt = stmt.where(t.c[k] == v)
                self.execute(stmt)
                self._persistent[key] = (
                    obj, pk, {n: getattr(obj, n) for n in snap})

    # --- Core
    def _account(self, stmt, kind='r', table=None):
        self.db.stmt_count += 1
        h = self.db.hooks
        if h is not None:
            h.on_execute(self, stmt)

    def _tables_of(self, f, acc):
        if isinstance(f, sa.Table):
            acc.add(f.name)
        elif isinstance(f, sel.Subquery):
            for ff in f.element.get_final_froms():
                self._tables_of(ff, acc)
        elif isinstance(f, sel.Alias):
            self._tables_of(f.element, acc)
        elif isinstance(f, sel.Join):
            self._tables_of(f.left, acc)
            self._tables_of(f.right, acc)

    def _check_int64(self, stmt, params):
        """the DBAPI driver (sqlite3) refuses integers outside the signed
        64-bit range when binding parameters: OverflowError, which oslo.db
        wraps as DBError.  Decided once per statement and per distinct
        symbolic term."""
        from sqlalchemy.sql import visitors
        vals = []
        try:
            for e in visitors.iterate(stmt):
                if isinstance(e, el.BindParameter):
                    v = e.value
                    if params and e.key in params:
                        v = params[e.key]
                    vals.extend(v if isinstance(v, (list, tuple, set))
                                else [v])
        except Exception:
            return
        if isinstance(params, dict):
            vals.extend(params.values())
        cur = symex.PathCtx.cur
        seen = cur.data.setdefault('int64_checked', set()) \
            if cur is not None and hasattr(cur, 'data') else set()
        for v in vals:
            if isinstance(v, tuple) and len(v) == 2:
                v = v[1]
            if isinstance(v, bool):
                continue
            if isinstance(v, str):
                try:
                    v.encode('utf-8')
                except UnicodeEncodeError:
                    # the driver cannot encode e.g. lone surrogates
                    from oslo_db import exception as db_exc
                    raise db_exc.DBInvalidUnicodeParameter()
                continue
            if isinstance(v, int):
                if not -2 ** 63 <= v < 2 ** 63:
                    self._overflow()
            elif isinstance(v, SymNum):
                t = to_z3(v)
                # keyed by the printed term: AST ids are reused after
                # garbage collection and differ between re-executions, which
                # would change the sequence of forks of a path
                key = t.sexpr()
                if t.sort() != z3.IntSort() or key in seen:
                    continue
                if fork(z3.Or(t >= 2 ** 63, t < -2 ** 63)):
                    if os.environ.get('VERIF_DEBUG_OVERFLOW'):
                        import sys
                        sys.stderr.write('OVERFLOW-TERM %s in %s\n' % (
                            z3.simplify(t), str(stmt)[:80].replace(chr(10), ' ')))
                    self._overflow()
                seen.add(key)

    def _overflow(self):
        from oslo_db import exception as db_exc
        raise db_exc.DBError(OverflowError(
            'Python int too large to convert to SQLite INTEGER'))

    def execute(self, stmt, params=None, **kw):
        if self.view is None:
            # autobegin (placement never relies on it, but be faithful)
            self.begin()
        self._account(stmt)
        self._check_int64(stmt, params)
        if isinstance(stmt, sel.Select):
            for f in stmt.get_final_froms():
                self._tables_of(f, self.reads)
            ev = Evaluator(self.view, params if isinstance(params, dict)
                           else None)
            rows = ev.eval_select(stmt)
            names = []
            for c in ev._expand_cols(list(stmt._raw_columns)):
                names.append(getattr(c, 'key', None) or
                             getattr(c, 'name', None))
            return Result(rows, names)
        if isinstance(stmt, dml.Insert):
            return self._insert(stmt, params)
        if isinstance(stmt, dml.Update):
            return self._update(stmt, params)
        if isinstance(stmt, dml.Delete):
            return self._delete(stmt, params)
        raise NotImplementedError('statement %s' % type(stmt))

    def scalar(self, stmt, params=None):
        return self.execute(stmt, params).scalar()

    def _default(self, c, onupdate=False):
        d = c.onupdate if onupdate else c.default
        if d is None:
            return None
        if d.is_scalar:
            return d.arg
        if d.is_callable:
            return d.arg(None)
        return None

    def _insert(self, stmt, params):
        t = stmt.table
        self.writes.add(t.name)
        self.dirty = True
        ev = Evaluator(self.view, None)
        rowsets = []
        if stmt.select is not None:
            names = [c if isinstance(c, str) else c.name
                     for c in stmt._select_names] \
                if hasattr(stmt, '_select_names') else None
            if names is None:
                names = [c.key for c in stmt.select.selected_columns]
            for f in stmt.select.get_final_froms():
                self._tables_of(f, self.reads)
            for c, vals in ev.eval_select(stmt.select):
                rowsets.append((c, dict(zip(names, vals))))
        elif stmt._multi_values:
            for mv in stmt._multi_values:
                for d in mv:
                    rowsets.append((True, {
                        (k if isinstance(k, str) else k.name): sqlval(v)
                        for k, v in d.items()}))
        elif isinstance(params, (list, tuple)):
            for d in params:
                rowsets.append((True, {k: sqlval(v) for k, v in d.items()}))
        else:
            vals = {}
            for k, v in (stmt._values or {}).items():
                vals[k if isinstance(k, str) else k.name] = ev.eval(v, {})
            if isinstance(params, dict):
                for k, v in params.items():
                    vals[k] = sqlval(v)
            rowsets.append((True, vals))
        rid = None
        last = {}
        n = 0
        for cond, given in rowsets:
            vals = {}
            for c in t.columns:
                if c.name in given:
                    vals[c.name] = cell(given[c.name])
                else:
                    vals[c.name] = self._default(c)
            pk = list(t.primary_key.columns)
            if len(pk) == 1 and vals[pk[0].name] is None and \
                    isinstance(pk[0].type, sa.Integer):
                rid = self.view.next_id[t.name]
                self.view.next_id[t.name] += 1
                vals[pk[0].name] = rid
            elif len(pk) == 1 and isinstance(vals[pk[0].name], int):
                rid = vals[pk[0].name]
                self.view.next_id[t.name] = max(self.view.next_id[t.name],
                                                rid + 1)
            for c in t.columns:
                if not c.nullable and vals[c.name] is None and \
                        c.server_default is None and cond is not False:
                    from oslo_db import exception as db_exc
                    raise db_exc.DBError('NOT NULL constraint failed: %s.%s'
                                         % (t.name, c.name))
            if cond is True:
                self._check_unique(t, vals)
            self.view.tables[t.name].append(Row(cond, vals))
            last = vals
            n += 1
        r = Result(rowcount=n, lastrowid=rid)
        r._inserted = last
        return r

    def _match(self, ev, t, r, where):
        env = {('T', t.name): r.vals}
        m = r.present
        for w in where:
            m = And(m, ev.truth(ev.eval(w, env)))
        return m, env

    def _update(self, stmt, params):
        t = stmt.table
        self.writes.add(t.name)
        self.reads.add(t.name)
        self.dirty = True
        ev = Evaluator(self.view, params if isinstance(params, dict) else None)
        cnt = []
        values = dict(stmt._values or {})
        names = {(k if isinstance(k, str) else k.name) for k in values}
        for c in t.columns:
            if c.onupdate is not None and c.name not in names:
                values[c.name] = el.BindParameter(None, self._default(c, True))
        for r in self.view.tables[t.name]:
            if r.present is False:
                continue
            m, env = self._match(ev, t, r, stmt._where_criteria)
            if m is False:
                continue
            newvals = dict(r.vals)
            for k, v in values.items():
                name = k if isinstance(k, str) else k.name
                nv = ev.eval(v, env) if isinstance(v, el.ClauseElement) \
                    else sqlval(v)
                if m is True or name in ('updated_at', 'created_at'):
                    # timestamps are not the subject of any property
                    newvals[name] = cell(nv)
                else:
                    newvals[name] = cell(ite_nv(
                        m, nv, sqlval(r.vals[name])))
            self._check_unique(t, newvals, changed={
                (k if isinstance(k, str) else k.name) for k in values},
                skip=r, when=m)
            r.vals = newvals
            cnt.append(m)
        return Result(rowcount=count_true(cnt))

    def _delete(self, stmt, params):
        t = stmt.table
        self.writes.add(t.name)
        self.reads.add(t.name)
        self.dirty = True
        ev = Evaluator(self.view, params if isinstance(params, dict) else None)
        cnt = []
        for r in self.view.tables[t.name]:
            if r.present is False:
                continue
            m, env = self._match(ev, t, r, stmt._where_criteria)
            if m is False:
                continue
            r.present = And(r.present, Not(m))
            cnt.append(m)
        return Result(rowcount=count_true(cnt))

    def _check_unique(self, t, vals, changed=None, skip=None, when=True):
        """INSERT: vals is the new row.  UPDATE: vals are the new values of
        row `skip` under condition `when`; only keys with a changed column
        can newly clash"""
        from oslo_db import exception as db_exc
        from sqlalchemy import UniqueConstraint
        keys = []
        for con in sorted(t.constraints, key=lambda c: str(c.name)):
            if isinstance(con, UniqueConstraint):
                keys.append([c.name for c in con.columns])
        # SQLite reports the most recently created unique index first when
        # several are violated at once; primary key first of all
        keys = [[c.name for c in t.primary_key.columns]] + keys[::-1]
        for cols in keys:
            if changed is not None and not (set(cols) & changed):
                continue
            mine = [sqlval(vals[c]) for c in cols]
            if any(n is True for n, v in mine):
                continue
            clash = []
            for r in self.view.tables[t.name]:
                if r.present is False or r is skip:
                    continue
                conds = []
                for c, (mn, mv) in zip(cols, mine):
                    n, v = sqlval(r.vals[c])
                    conds.append(And(Not(n), Not(mn), eq(v, mv))
                                 if n is not True else False)
                clash.append(And(r.present, when, *conds))
            if not clash:
                continue
            if fork(zbool(Or(*clash))):
                raise db_exc.DBDuplicateEntry(columns=cols, value=str(
                    [vals[c] for c in cols]))


def stmt_tables(stmt):
    """names of the base tables a statement touches"""
    acc = set()

    def froms(f):
        if isinstance(f, sa.Table):
            acc.add(f.name)
        elif isinstance(f, sel.Subquery):
            sel_(f.element)
        elif isinstance(f, sel.Alias):
            froms(f.element)
        elif isinstance(f, sel.Join):
            froms(f.left)
            froms(f.right)

    def sel_(s):
        for f in s.get_final_froms():
            froms(f)
    if isinstance(stmt, sel.Select):
        sel_(stmt)
    elif isinstance(stmt, (dml.Insert, dml.Update, dml.Delete)):
        acc.add(stmt.table.name)
        if isinstance(stmt, dml.Insert) and stmt.select is not None:
            sel_(stmt.select)
    return acc


def make_factory(db, session_cls=SymSession):
    from oslo_db.sqlalchemy import enginefacade

    class SymFactory(enginefacade._TransactionFactory):
        def __init__(self):
            super().__init__()
            self._started = True
            self.db = db

        def _create_session(self, mode, bind=None):
            return session_cls(db, mode)

    return SymFactory()
