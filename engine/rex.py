"""Python regular expression -> z3 regular expression, with *Python's*
semantics for anchors under re.search (what jsonschema's `pattern` uses):
`$` also matches just before a trailing newline.  Supports the constructs
that occur in placement's schema patterns; anything else raises.
"""
import re
try:
    from re import _parser as sre_parse, _constants as sre_c
except ImportError:     # py < 3.11
    import sre_parse
    import sre_constants as sre_c

import z3

ANY = z3.Full(z3.ReSort(z3.StringSort()))      # Sigma*
ANYCHAR = z3.AllChar(z3.ReSort(z3.StringSort()))
EPS = z3.Re('')


_CLASS_CACHE = {}


def _unicode_class(name):
    """Python's str semantics of \\d, \\w, \\s: Unicode categories, not the
    ASCII ones (no re.ASCII flag in jsonschema's use of `pattern`)"""
    if name in _CLASS_CACHE:
        return _CLASS_CACHE[name]
    pat = re.compile({'d': r'\d', 'w': r'\w', 's': r'\s'}[name])
    ranges, start, prev = [], None, None
    for cp in range(0x30000):           # z3's character range
        if 0xD800 <= cp <= 0xDFFF:
            hit = False
        else:
            hit = pat.match(chr(cp)) is not None
        if hit and start is None:
            start = cp
        if not hit and start is not None:
            ranges.append((start, cp - 1))
            start = None
    if start is not None:
        ranges.append((start, 0x2FFFF))
    alts = [z3.Range(chr(a), chr(b)) if a != b else z3.Re(chr(a))
            for a, b in ranges]
    _CLASS_CACHE[name] = alts
    return alts


def _charset(items):
    alts = []
    neg = False
    for op, av in items:
        if op is sre_c.NEGATE:
            neg = True
        elif op is sre_c.LITERAL:
            alts.append(z3.Re(chr(av)))
        elif op is sre_c.RANGE:
            alts.append(z3.Range(chr(av[0]), chr(av[1])))
        elif op is sre_c.CATEGORY:
            if av is sre_c.CATEGORY_DIGIT:
                alts += _unicode_class('d')
            elif av is sre_c.CATEGORY_WORD:
                alts += _unicode_class('w')
            elif av is sre_c.CATEGORY_SPACE:
                alts += _unicode_class('s')
            else:
                raise NotImplementedError('category %s' % av)
        else:
            raise NotImplementedError('charset item %s' % op)
    r = alts[0] if len(alts) == 1 else z3.Union(*alts)
    if neg:
        r = z3.Intersect(ANYCHAR, z3.Complement(r))
    return r


def _seq(items):
    """translate a sequence without anchors"""
    parts = []
    for op, av in items:
        if op is sre_c.LITERAL:
            parts.append(z3.Re(chr(av)))
        elif op is sre_c.IN:
            parts.append(_charset(av))
        elif op is sre_c.ANY:
            parts.append(z3.Intersect(ANYCHAR, z3.Complement(z3.Re('\n'))))
        elif op in (sre_c.MAX_REPEAT, sre_c.MIN_REPEAT):
            lo, hi, sub = av
            inner = _seq(sub)
            if hi is sre_c.MAXREPEAT:
                r = z3.Star(inner) if lo == 0 else z3.Plus(inner) if lo == 1 \
                    else z3.Concat(z3.Loop(inner, lo, lo), z3.Star(inner))
            else:
                r = z3.Loop(inner, lo, hi)
            parts.append(r)
        elif op is sre_c.SUBPATTERN:
            parts.append(_seq(av[3]))
        elif op is sre_c.BRANCH:
            parts.append(z3.Union(*[_alt(a, inner=True) for a in av[1]]))
        elif op is sre_c.AT:
            raise NotImplementedError('anchor inside a sequence')
        else:
            raise NotImplementedError('regex op %s' % op)
    if not parts:
        return EPS
    if len(parts) == 1:
        return parts[0]
    return z3.Concat(*parts)


def _alt(items, inner=False):
    """one alternative under re.search: optional ^ at the start, optional $
    (or \\Z) at the end"""
    items = list(items)
    begin = end = endz = False
    if items and items[0][0] is sre_c.AT and items[0][1] in (
            sre_c.AT_BEGINNING, sre_c.AT_BEGINNING_STRING):
        begin = True
        items = items[1:]
    if items and items[-1][0] is sre_c.AT and items[-1][1] is sre_c.AT_END:
        end = True
        items = items[:-1]
    elif items and items[-1][0] is sre_c.AT and \
            items[-1][1] is sre_c.AT_END_STRING:
        endz = True
        items = items[:-1]
    body = _seq(items)
    if inner:
        if begin or end or endz:
            raise NotImplementedError('anchors in a nested branch')
        return body
    parts = []
    if not begin:
        parts.append(ANY)
    parts.append(body)
    if end:
        # Python: $ matches at the end or just before a trailing newline
        parts.append(z3.Union(EPS, z3.Re('\n')))
    elif not endz:
        parts.append(ANY)
    return z3.Concat(*parts) if len(parts) > 1 else parts[0]


def search_language(pattern):
    """z3 regex of { s | re.search(pattern, s) }"""
    tree = sre_parse.parse(pattern)
    items = list(tree)
    if len(items) == 1 and items[0][0] is sre_c.BRANCH:
        return z3.Union(*[_alt(a) for a in items[0][1][1]]) \
            if len(items[0][1][1]) > 1 else _alt(items[0][1][1][0])
    # sre factors a common leading ^ out of the alternatives:
    # ^a$|^b  ->  ^ (a$ | b): distribute it back
    if len(items) == 2 and items[0][0] is sre_c.AT and \
            items[1][0] is sre_c.BRANCH:
        return z3.Union(*[_alt([items[0]] + list(a))
                          for a in items[1][1][1]])
    return _alt(items)


def included(lang, spec, max_len=None, min_len=None, timeout_ms=20000):
    """Is lang (∧ length bounds) ⊆ spec?  Returns ('unsat', None) if yes,
    ('sat', witness) with a string in lang \\ spec, or ('unknown', None)."""
    s = z3.String('s')
    sol = z3.Solver()
    sol.set('timeout', timeout_ms)
    sol.add(z3.InRe(s, lang))
    sol.add(z3.Not(z3.InRe(s, spec)))
    if max_len is not None:
        sol.add(z3.Length(s) <= max_len)
    if min_len is not None:
        sol.add(z3.Length(s) >= min_len)
    r = str(sol.check())
    if r == 'sat':
        return r, sol.model()[s].as_string()
    return r, None


def unescape(z3str):
    """z3 prints non-printables as \\u{a}; turn them back"""
    return re.sub(r'\\u\{([0-9a-fA-F]+)\}',
                  lambda m: chr(int(m.group(1), 16)), z3str)
