"""Dynamic symbolic execution core: z3-backed proxy values that travel through
the natively running placement code, a path context that forks on symbolic
branches, and a (parallel) depth-first explorer by re-execution.

Nothing here knows about placement.
"""
import fractions
import math
import os
import sys
import time
import traceback

import z3

SOLVER_TIMEOUT_MS = int(os.environ.get('VERIF_SOLVER_TIMEOUT_MS', '10000'))
MAX_DECISIONS = int(os.environ.get('VERIF_MAX_DECISIONS', '4000'))


# --------------------------------------------------------------------------
# engine signals: BaseException so that `except Exception` in the code under
# test (and in harnesses) never swallows them.

class EngineSignal(BaseException):
    pass


class Infeasible(EngineSignal):
    """The current decision prefix has no feasible continuation."""


class ConcretisationRequired(EngineSignal):
    """A proxy was about to be silently turned into a concrete value."""


class PathBudget(EngineSignal):
    """Too many decisions on one path (runaway loop on symbolic data)."""


class Crash(EngineSignal):
    """Injected process death (C18)."""


# --------------------------------------------------------------------------
# uninterpreted abstractions of nonlinear arithmetic (DESIGN 3.2)

ABSTRACT = os.environ.get('VERIF_EXACT_ARITH') != '1'
FMUL = z3.Function('fmul', z3.RealSort(), z3.RealSort(), z3.RealSort())
IMOD = z3.Function('imod', z3.IntSort(), z3.IntSort(), z3.IntSort())


def _is_const(t):
    return z3.is_int_value(t) or z3.is_rational_value(t)


def _toreal(t):
    return z3.ToReal(t) if t.sort() == z3.IntSort() else t


def z_mul(a, b):
    """Product of two z3 arithmetic terms; symbolic*symbolic is abstracted."""
    if _is_const(a) or _is_const(b) or not ABSTRACT:
        return a * b
    ar, br = _toreal(a), _toreal(b)
    # canonical argument order so that implementation and oracle meet on the
    # same application whatever operand order they used
    if (a.sort() == z3.RealSort()) and (b.sort() == z3.IntSort()):
        ar, br = br, ar
    elif a.sort() == b.sort() and ar.get_id() > br.get_id():
        ar, br = br, ar
    return FMUL(ar, br)


def z_mod(a, b):
    if z3.is_int_value(b) or not ABSTRACT:
        return a % b
    t = IMOD(a, b)
    ctx = PathCtx.cur
    if ctx is not None:
        ctx.add_axiom(z3.Implies(b > 0, z3.And(t >= 0, t < b)))
        if z3.is_add(a):
            # lemma instance (true of the real remainder): a sum of
            # multiples of b is a multiple of b
            parts = [IMOD(a.arg(i), b) == 0 for i in range(a.num_args())]
            ctx.add_axiom(z3.Implies(z3.And(b > 0, *parts), t == 0))
    return t


def exactify(t):
    """Replace fmul/imod applications by exact arithmetic (counterexample
    refinement)."""
    memo = {}

    def go(e):
        k = e.get_id()
        if k in memo:
            return memo[k]
        if z3.is_app(e) and e.num_args() > 0:
            args = [go(e.arg(i)) for i in range(e.num_args())]
            d = e.decl()
            if d.eq(FMUL):
                r = args[0] * args[1]
            elif d.eq(IMOD):
                r = args[0] % args[1]
            else:
                r = d(*args)
        else:
            r = e
        memo[k] = r
        return r
    return go(t)


# --------------------------------------------------------------------------
# path context

class PathCtx:
    cur = None

    def __init__(self, prefix=()):
        self.prefix = list(prefix)
        self.decisions = []      # (taken, alternatives) ; alternatives: list
        self.pc = []             # z3 constraints (assumptions + branch conds)
        self.axioms = []
        self._axiom_ids = set()
        self.solver = z3.Solver()
        self.solver.set('timeout', SOLVER_TIMEOUT_MS)
        self.nq = 0
        self.tq = 0.0
        self.unknown_forks = 0
        self.concretisations = 0
        self.unknown_queries = 0
        self.notes = []
        self.vars = {}           # name -> z3 const, for model printing
        self.data = {}           # scratch for harnesses / session hooks
        self.concretised = 0
        self.choices = []        # choose() decisions in order (for replay)
        self.replay_choices = None
        self._dirty = False      # assumptions added since last sat check

    # --- solver
    def check(self, *extra, timeout_ms=None):
        t = time.time()
        self.solver.push()
        if timeout_ms:
            self.solver.set('timeout', timeout_ms)
        for e in extra:
            self.solver.add(e)
        r = self.solver.check()
        self.last_model = self.solver.model() if r == z3.sat else None
        self.last_reason = self.solver.reason_unknown() if r == z3.unknown else None
        self.solver.pop()
        if timeout_ms:
            self.solver.set('timeout', SOLVER_TIMEOUT_MS)
        self.nq += 1
        self.tq += time.time() - t
        s = str(r)
        if s == 'unknown':
            self.unknown_queries += 1
        return s

    def add_axiom(self, ax):
        k = ax.get_id()
        if k in self._axiom_ids:
            return
        self._axiom_ids.add(k)
        self.axioms.append(ax)
        self.solver.add(ax)

    def assume(self, cond):
        if isinstance(cond, Sym):
            cond = cond.z
        if isinstance(cond, bool):
            if not cond:
                raise Infeasible()
            return
        cond = z3.simplify(cond)
        if z3.is_true(cond):
            return
        if z3.is_false(cond):
            raise Infeasible()
        self.pc.append(cond)
        self.solver.add(cond)
        self._dirty = True

    def _record(self, taken, alts):
        if len(self.decisions) >= MAX_DECISIONS:
            raise PathBudget('more than %d decisions on one path'
                             % MAX_DECISIONS)
        self.decisions.append((taken, alts))

    def fork(self, cond):
        """Concrete truth value for a z3 Bool on this path; may fork."""
        if isinstance(cond, bool):
            return cond
        cond = z3.simplify(cond)
        if z3.is_true(cond):
            return True
        if z3.is_false(cond):
            return False
        i = len(self.decisions)
        if i < len(self.prefix):
            take = self.prefix[i]
            self._record(take, [])
            c = cond if take else z3.Not(cond)
            self.pc.append(c)
            self.solver.add(c)
            return take
        if self._dirty:
            # keep the invariant "PC is satisfiable" that the one-query
            # shortcut below relies on
            if self.check() == 'unsat':
                raise Infeasible()
            self._dirty = False
        rt = self.check(cond)
        if rt == 'unsat':
            # PC is satisfiable by construction, so the other side is
            self._record(False, [])
            self.pc.append(z3.Not(cond))
            self.solver.add(z3.Not(cond))
            return False
        rf = self.check(z3.Not(cond))
        if rt == 'unknown' or rf == 'unknown':
            self.unknown_forks += 1
        if rf == 'unsat':
            self._record(True, [])
            self.pc.append(cond)
            self.solver.add(cond)
            return True
        self._record(True, [False])
        self.pc.append(cond)
        self.solver.add(cond)
        return True

    def choose(self, n, label=None):
        if self.replay_choices is not None:
            k = self.replay_choices.pop(0) if self.replay_choices else 0
            self.choices.append(k)
            return k
        if n <= 1:
            self.choices.append(0)
            return 0
        i = len(self.decisions)
        if i < len(self.prefix):
            k = self.prefix[i]
            self._record(k, [])
        else:
            k = 0
            self._record(0, list(range(1, n)))
        self.choices.append(k)
        return k

    # --- variables
    def int(self, name, lo=None, hi=None):
        v = z3.Int(name)
        self.vars[name] = v
        if lo is not None:
            self.assume(v >= lo)
        if hi is not None:
            self.assume(v <= hi)
        return SymNum(v)

    def real(self, name, lo=None, hi=None):
        v = z3.Real(name)
        self.vars[name] = v
        if lo is not None:
            self.assume(v >= lo)
        if hi is not None:
            self.assume(v <= hi)
        return SymNum(v)

    def bool(self, name):
        v = z3.Bool(name)
        self.vars[name] = v
        return v

    def model_values(self, model):
        out = {}
        for name, v in self.vars.items():
            val = model.eval(v, model_completion=True)
            out[name] = _pyval(val)
        return out


def _pyval(val):
    if z3.is_int_value(val):
        return val.as_long()
    if z3.is_rational_value(val):
        n, d = val.numerator_as_long(), val.denominator_as_long()
        return n if d == 1 else n / d
    if z3.is_true(val):
        return True
    if z3.is_false(val):
        return False
    if z3.is_algebraic_value(val):
        return float(val.approx(20).as_fraction())
    return str(val)


def cur():
    return PathCtx.cur


def fork(cond):
    if isinstance(cond, bool):
        return cond
    if isinstance(cond, Sym):
        cond = cond.z
    ctx = PathCtx.cur
    if ctx is None:
        c = z3.simplify(cond)
        if z3.is_true(c):
            return True
        if z3.is_false(c):
            return False
        raise RuntimeError('symbolic branch outside a path context: %s' % c)
    return ctx.fork(cond)


def choose(n, label=None):
    ctx = PathCtx.cur
    if ctx is None:
        return 0
    return ctx.choose(n, label)


def assume(cond):
    PathCtx.cur.assume(cond)


# --------------------------------------------------------------------------
# proxies

class Sym:
    __slots__ = ('z',)

    def __init__(self, z):
        self.z = z


def wrap(z):
    """z3 term -> python value if constant, else proxy."""
    z = z3.simplify(z)
    if z3.is_int_value(z):
        return z.as_long()
    if z3.is_rational_value(z):
        n, d = z.numerator_as_long(), z.denominator_as_long()
        return float(n) if d == 1 else n / d
    if z3.is_true(z):
        return True
    if z3.is_false(z):
        return False
    if z3.is_bool(z):
        return SymBool(z)
    return SymNum(z)


class _Special:
    """marker for non-real floats in comparisons"""


def to_z3(v):
    if isinstance(v, Sym):
        return v.z
    if isinstance(v, bool):
        return z3.BoolVal(v)
    if isinstance(v, int):
        return z3.IntVal(v)
    if isinstance(v, float):
        if math.isnan(v) or math.isinf(v):
            raise ValueError('non-finite float in symbolic arithmetic')
        return z3.RealVal(repr(v))
    if isinstance(v, z3.ExprRef):
        return v
    raise TypeError('cannot lift %r' % type(v))


class SymBool(Sym):
    __slots__ = ()

    def __bool__(self):
        return fork(self.z)

    def __and__(self, o):
        if isinstance(o, (bool, SymBool)):
            return wrap(z3.And(self.z, to_z3(o)))
        return NotImplemented
    __rand__ = __and__

    def __or__(self, o):
        if isinstance(o, (bool, SymBool)):
            return wrap(z3.Or(self.z, to_z3(o)))
        return NotImplemented
    __ror__ = __or__

    def __invert__(self):
        return wrap(z3.Not(self.z))

    def __eq__(self, o):
        if isinstance(o, (bool, SymBool)):
            return wrap(self.z == to_z3(o))
        return False

    def __ne__(self, o):
        if isinstance(o, (bool, SymBool)):
            return wrap(self.z != to_z3(o))
        return True

    def __hash__(self):
        return 1

    def __repr__(self):
        return '<symbool>'


def _isnum(o):
    return isinstance(o, (int, float, SymNum)) and not isinstance(o, bool)


def _cmp_special(self, o, op):
    """comparison of a finite symbolic number with inf/nan"""
    if math.isnan(o):
        return op == 'ne'
    pos = o > 0
    return {'lt': pos, 'le': pos, 'gt': not pos, 'ge': not pos,
            'eq': False, 'ne': True}[op]


class SymNum(Sym):
    __slots__ = ()

    @property
    def is_int(self):
        return self.z.sort() == z3.IntSort()

    def _bin(self, o, f, name=None):
        if not _isnum(o):
            return NotImplemented
        if isinstance(o, float) and (math.isnan(o) or math.isinf(o)):
            if name in ('lt', 'le', 'gt', 'ge', 'eq', 'ne'):
                return _cmp_special(self, o, name)
            raise ConcretisationRequired('arithmetic with %r' % o)
        return wrap(f(self.z, to_z3(o)))

    def _rbin(self, o, f):
        if not _isnum(o):
            return NotImplemented
        if isinstance(o, float) and (math.isnan(o) or math.isinf(o)):
            raise ConcretisationRequired('arithmetic with %r' % o)
        return wrap(f(to_z3(o), self.z))

    def __add__(self, o): return self._bin(o, lambda a, b: a + b)
    def __radd__(self, o): return self._rbin(o, lambda a, b: a + b)
    def __sub__(self, o): return self._bin(o, lambda a, b: a - b)
    def __rsub__(self, o): return self._rbin(o, lambda a, b: a - b)
    def __mul__(self, o): return self._bin(o, z_mul)
    def __rmul__(self, o): return self._rbin(o, z_mul)
    def __mod__(self, o): return self._bin(o, z_mod)
    def __rmod__(self, o): return self._rbin(o, z_mod)
    def __neg__(self): return wrap(-self.z)
    def __pos__(self): return self

    def __abs__(self):
        return wrap(z3.If(self.z >= 0, self.z, -self.z))

    def __truediv__(self, o):
        if not _isnum(o):
            return NotImplemented
        oz = to_z3(o)
        if not _is_const(oz):
            raise ConcretisationRequired('division by symbolic value')
        return wrap(_toreal(self.z) / _toreal(oz))

    def __floordiv__(self, o):
        if isinstance(o, int) and not isinstance(o, bool) and self.is_int:
            return wrap(self.z / o)
        return NotImplemented

    def __lt__(self, o): return self._bin(o, lambda a, b: a < b, 'lt')
    def __le__(self, o): return self._bin(o, lambda a, b: a <= b, 'le')
    def __gt__(self, o): return self._bin(o, lambda a, b: a > b, 'gt')
    def __ge__(self, o): return self._bin(o, lambda a, b: a >= b, 'ge')

    def __eq__(self, o):
        if isinstance(o, bool):
            return self._bin(int(o), lambda a, b: a == b, 'eq')
        r = self._bin(o, lambda a, b: a == b, 'eq')
        return False if r is NotImplemented else r

    def __ne__(self, o):
        if isinstance(o, bool):
            return self._bin(int(o), lambda a, b: a != b, 'ne')
        r = self._bin(o, lambda a, b: a != b, 'ne')
        return True if r is NotImplemented else r

    def __hash__(self):
        return 0

    def __bool__(self):
        return fork(self.z != 0)

    def _concretise(self, what):
        """The code needs a machine number (string formatting with %d,
        range(), C-level conversions).  Concolic-style: take the value of a
        model of the path condition, *add the equation to the path
        condition* (sound: the path now stands for fewer inputs) and count
        the event; the evidence reports the total, which is 0 on the
        unchanged tree."""
        ctx = PathCtx.cur
        if ctx is None or getattr(ctx, 'concrete', False):
            raise ConcretisationRequired('%s of %s' % (what, self.z))
        if ctx.check() != 'sat':
            raise ConcretisationRequired('%s of %s (no model)' % (
                what, self.z))
        v = ctx.last_model.eval(self.z, model_completion=True)
        ctx.assume(self.z == v)
        ctx.concretisations += 1
        if z3.is_int_value(v):
            return v.as_long()
        if z3.is_rational_value(v):
            return fractions.Fraction(v.numerator_as_long(),
                                      v.denominator_as_long())
        raise ConcretisationRequired('%s of %s (value %s)' % (
            what, self.z, v))

    def __int__(self):
        return int(self._concretise('int()'))

    def __index__(self):
        v = self._concretise('index')
        if isinstance(v, fractions.Fraction) and v.denominator != 1:
            raise TypeError('symbolic real used as an index')
        return int(v)

    def __float__(self):
        return float(self._concretise('float()'))

    def __trunc__(self):
        return int(self._concretise('trunc()'))

    def __round__(self, n=None):
        """round() to an integer: half to even, as Python does"""
        if n is not None:
            return round(float(self._concretise('round(x, n)')), n)
        if self.z.sort() == z3.IntSort():
            return self
        f = z3.ToInt(self.z)                     # floor
        d = self.z - z3.ToReal(f)
        half = z3.RealVal('1/2')
        return SymNum(f + z3.If(d > half, 1, z3.If(
            d < half, 0, z3.If(f % 2 == 0, 0, 1))))

    def __repr__(self):
        return '<sym %s>' % z3.simplify(self.z).sexpr()[:40]

    __str__ = __repr__

    def __format__(self, spec):
        return repr(self)

    def __deepcopy__(self, memo):
        return self

    def __copy__(self):
        return self


def concretize(x):
    """Case-split a symbolic integer into its concrete values on this path
    (used for identifier columns, which index Python dicts): returns a python
    int; the explorer covers every other feasible value on sibling paths."""
    if not isinstance(x, SymNum):
        return x
    ctx = PathCtx.cur
    for _ in range(64):
        r = ctx.check()
        if r != 'sat':
            raise Infeasible()
        v = ctx.last_model.eval(x.z, model_completion=True)
        if ctx.fork(x.z == v):
            return _pyval(v)
    raise PathBudget('identifier with more than 64 values')


def sym_int(x=0, *a):
    """Drop-in for the builtin int() in modules that convert request numbers:
    truncates symbolic reals toward zero, parses "$sN" tokens."""
    if isinstance(x, SymNum):
        z = x.z
        if z.sort() == z3.IntSort():
            return x
        return wrap(z3.If(z >= 0, z3.ToInt(z), -z3.ToInt(-z)))
    if isinstance(x, str) and x.startswith('$s'):
        ctx = PathCtx.cur
        tok = ctx.data.get('tokens', {}) if ctx else {}
        if x in tok:
            return tok[x]
    return int(x, *a)


def sym_float(x=0.0):
    if isinstance(x, SymNum):
        return x if not x.is_int else wrap(z3.ToReal(x.z))
    return float(x)


def ite(c, a, b):
    """symbolic if-then-else on python/proxy values"""
    if isinstance(c, Sym):
        c = c.z
    if isinstance(c, bool):
        return a if c else b
    az, bz = to_z3(a), to_z3(b)
    if az.sort() != bz.sort():
        az, bz = _toreal(az), _toreal(bz)
    return wrap(z3.If(c, az, bz))


# --------------------------------------------------------------------------
# exploration

class PathResult:
    """What a worker sends back for one path (must be picklable)."""
    __slots__ = ('prefix', 'outcome', 'violations', 'info', 'error',
                 'nq', 'tq', 'unknown_forks', 'unknown_queries', 'ndec',
                 'concretisations')


def run_one(path_fn, prefix):
    ctx = PathCtx(prefix)
    PathCtx.cur = ctx
    res = PathResult()
    res.error = None
    res.outcome = None
    res.violations = []
    res.info = None
    try:
        out = path_fn(ctx)
        if out is not None:
            res.outcome = out.get('outcome')
            res.violations = out.get('violations', [])
            res.info = out.get('info')
    except Infeasible:
        res.outcome = '__infeasible__'
    except EngineSignal as e:
        res.outcome = '__engine__'
        res.error = '%s: %s\n%s' % (type(e).__name__, e,
                                    ''.join(traceback.format_tb(e.__traceback__)[-6:]))
    except Exception as e:     # harness bug: report, do not hide
        res.outcome = '__harness_error__'
        res.error = '%s: %s\n%s' % (type(e).__name__, e,
                                    ''.join(traceback.format_tb(e.__traceback__)[-8:]))
    finally:
        PathCtx.cur = None
    res.prefix = [d[0] for d in ctx.decisions]
    res.nq, res.tq = ctx.nq, ctx.tq
    res.unknown_forks = ctx.unknown_forks
    res.concretisations = ctx.concretisations
    res.unknown_queries = ctx.unknown_queries
    res.ndec = len(ctx.decisions)
    alts = []
    for i in range(len(prefix), len(ctx.decisions)):
        taken, others = ctx.decisions[i]
        for k in others:
            alts.append(res.prefix[:i] + [k])
    return res, alts


_PATH_FN = None


def _subtree(args):
    prefix, budget, deadline = args
    stack = [prefix]
    results = []
    while stack and budget > 0 and time.time() < deadline:
        p = stack.pop()
        r, alts = run_one(_PATH_FN, p)
        results.append(r)
        stack.extend(alts)
        budget -= 1
    return results, stack


def explore(path_fn, workers=None, max_paths=200000, time_budget=None,
            chunk=6, progress=None):
    """Explore all paths of path_fn.  Returns (results, stats).  stats
    ['complete'] is False if a budget cut the exploration short."""
    global _PATH_FN
    _PATH_FN = path_fn
    t0 = time.time()
    deadline = t0 + (time_budget or 10 ** 9)
    workers = workers or int(os.environ.get('VERIF_WORKERS', '0')) or \
        min(16, os.cpu_count() or 1)
    results = []
    pending = [[]]
    stats = dict(paths=0, infeasible=0, queries=0, solver_s=0.0,
                 unknown_forks=0, unknown_queries=0, decisions=0,
                 concretisations=0,
                 complete=True, errors=0)

    def account(rs):
        for r in rs:
            if r.outcome == '__infeasible__':
                stats['infeasible'] += 1
            else:
                stats['paths'] += 1
                results.append(r)
            if r.outcome in ('__engine__', '__harness_error__'):
                stats['errors'] += 1
            stats['queries'] += r.nq
            stats['solver_s'] += r.tq
            stats['unknown_forks'] += r.unknown_forks
            stats['concretisations'] += getattr(r, 'concretisations', 0)
            stats['unknown_queries'] += r.unknown_queries
            stats['decisions'] += r.ndec

    if workers <= 1:
        while pending:
            if stats['paths'] >= max_paths or time.time() > deadline:
                stats['complete'] = False
                break
            rs, left = _subtree((pending.pop(), chunk, deadline))
            account(rs)
            pending.extend(left)
        stats['wall_s'] = time.time() - t0
        return results, stats

    # warm up sequentially so that there is a frontier to distribute
    while pending and len(pending) < workers * 2 and stats['paths'] < 8:
        if time.time() > deadline:
            stats['complete'] = False
            stats['wall_s'] = time.time() - t0
            return results, stats
        rs, left = _subtree((pending.pop(), 1, deadline))
        account(rs)
        pending.extend(left)
    if not pending:
        stats['wall_s'] = time.time() - t0
        return results, stats

    import multiprocessing as mp
    from concurrent.futures import ProcessPoolExecutor, wait, FIRST_COMPLETED
    ex = ProcessPoolExecutor(max_workers=workers,
                             mp_context=mp.get_context('fork'))
    try:
        inflight = set()
        while pending or inflight:
            over = stats['paths'] >= max_paths or time.time() > deadline
            if over:
                stats['complete'] = False
                if not inflight:
                    break
            while pending and len(inflight) < workers * 2 and not over:
                # deepest prefixes first keeps the frontier small
                p = pending.pop()
                inflight.add(ex.submit(_subtree, (p, chunk, deadline)))
            done, inflight = wait(inflight, return_when=FIRST_COMPLETED)
            for f in done:
                rs, left = f.result()
                account(rs)
                pending.extend(left)
            if progress and stats['paths'] % 200 < chunk:
                progress(stats, len(pending))
    finally:
        ex.shutdown(wait=True, cancel_futures=True)
    stats['wall_s'] = time.time() - t0
    return results, stats
