"""Translation validation of the trusted base: the SQL interpreter
(engine/symdb.py, concrete mode) and the ORM facade are run side by side with
real SQLite (the repository's own Database fixture) under the same real WSGI
application on seeded random request sequences; every response (status, JSON
body, selected headers) and the canonical final state must agree.
"""
import json
import random

from engine import app, symex
from engine.scenario import (World, ConcreteCtx, U, AGG, CONS, canon)
from engine.symex import PathCtx

RCS = ['VCPU', 'MEMORY_MB', 'DISK_GB', 'CUSTOM_FOO']
TRAITS = ['MISC_SHARES_VIA_AGGREGATE', 'HW_CPU_X86_AVX', 'CUSTOM_T1',
          'CUSTOM_T2']


class SymConcreteCtx(PathCtx):
    """context for running the symbolic back end with concrete data"""
    concrete = False


def seed_world(w):
    for rc in RCS[:3]:
        w.rc(rc)
    w.rc('CUSTOM_FOO', 10000)
    for t in TRAITS:
        w.trait(t)


def gen_requests(rng, n):
    """A random API conversation over small pools of identifiers."""
    reqs = [('POST', '/resource_providers', {'name': 'p%d' % i, 'uuid': U(i)},
             '1.39') for i in (1, 2, 3)]
    gens = {}

    def g(p):
        # mostly the right generation (tracked optimistically), sometimes stale
        return rng.choice([gens.get(p, 0), gens.get(p, 0), gens.get(p, 0),
                           rng.randint(0, 3)])
    for i in range(n):
        p = rng.randint(1, 4)
        c = rng.randint(1, 3)
        rc = rng.choice(RCS)
        kind = rng.choice([
            'post_rp', 'post_rp', 'put_rp', 'del_rp', 'put_invs', 'put_invs',
            'put_inv', 'post_inv', 'del_inv', 'del_invs', 'put_traits',
            'del_traits', 'put_aggs', 'put_alloc', 'put_alloc', 'put_alloc',
            'post_alloc', 'del_alloc', 'get_rp', 'get_rps', 'get_invs',
            'get_usages', 'get_allocs', 'get_rp_allocs', 'get_cands',
            'get_cands', 'put_trait', 'del_trait', 'get_traits', 'post_rc',
            'put_rc', 'del_rc', 'get_rcs', 'reshape', 'get_proj_usages',
            'get_aggs', 'get_rp_traits'])
        ver = rng.choice(['1.39', '1.39', '1.36', '1.30', '1.28', '1.20',
                          '1.12', '1.10', '1.0'])
        if kind == 'post_rp':
            b = {'name': 'p%d' % p, 'uuid': U(p)}
            if rng.random() < 0.5:
                b['parent_provider_uuid'] = U(rng.randint(1, 4))
            reqs.append(('POST', '/resource_providers', b, '1.39'))
        elif kind == 'put_rp':
            b = {'name': 'p%d%s' % (p, rng.choice(['', 'x']))}
            if rng.random() < 0.6:
                b['parent_provider_uuid'] = rng.choice(
                    [None, U(rng.randint(1, 4))])
            reqs.append(('PUT', '/resource_providers/' + U(p), b,
                         rng.choice(['1.39', '1.36', '1.14'])))
        elif kind == 'del_rp':
            reqs.append(('DELETE', '/resource_providers/' + U(p), None, ver))
        elif kind == 'put_invs':
            invs = {}
            for r in rng.sample(RCS, rng.randint(0, 3)):
                invs[r] = {'total': rng.choice([1, 4, 8, 100]),
                           'reserved': rng.choice([0, 0, 1]),
                           'min_unit': 1,
                           'max_unit': rng.choice([1, 4, 100]),
                           'step_size': rng.choice([1, 1, 2]),
                           'allocation_ratio': rng.choice([1.0, 1.5, 2.0])}
            reqs.append(('PUT', '/resource_providers/%s/inventories' % U(p),
                         {'resource_provider_generation': g(p),
                          'inventories': invs}, ver))
            gens[p] = gens.get(p, 0) + 1
        elif kind == 'put_inv':
            reqs.append(('PUT', '/resource_providers/%s/inventories/%s'
                         % (U(p), rc),
                         {'resource_provider_generation': g(p),
                          'total': rng.choice([1, 2, 16]),
                          'max_unit': rng.choice([1, 16])}, ver))
            gens[p] = gens.get(p, 0) + 1
        elif kind == 'post_inv':
            reqs.append(('POST', '/resource_providers/%s/inventories' % U(p),
                         {'resource_class': rc, 'total': rng.choice([2, 8])},
                         ver))
            gens[p] = gens.get(p, 0) + 1
        elif kind == 'del_inv':
            reqs.append(('DELETE', '/resource_providers/%s/inventories/%s'
                         % (U(p), rc), None, ver))
        elif kind == 'del_invs':
            reqs.append(('DELETE', '/resource_providers/%s/inventories'
                         % U(p), None, '1.39'))
        elif kind == 'put_traits':
            reqs.append(('PUT', '/resource_providers/%s/traits' % U(p),
                         {'resource_provider_generation': g(p),
                          'traits': rng.sample(TRAITS, rng.randint(0, 3))},
                         '1.39'))
            gens[p] = gens.get(p, 0) + 1
        elif kind == 'del_traits':
            reqs.append(('DELETE', '/resource_providers/%s/traits' % U(p),
                         None, '1.39'))
        elif kind == 'put_aggs':
            aggs = [AGG(a) for a in rng.sample([1, 2, 3], rng.randint(0, 2))]
            v = rng.choice(['1.39', '1.19', '1.1'])
            body = aggs if v == '1.1' else {
                'resource_provider_generation': g(p), 'aggregates': aggs}
            reqs.append(('PUT', '/resource_providers/%s/aggregates' % U(p),
                         body, v))
        elif kind in ('put_alloc', 'post_alloc'):
            def allocs():
                out = {}
                for q in rng.sample([1, 2, 3, 4], rng.randint(0, 2)):
                    out[U(q)] = {'resources': {
                        r: rng.choice([1, 1, 2, 5])
                        for r in rng.sample(RCS, rng.randint(1, 2))}}
                return out
            v = rng.choice(['1.39', '1.36', '1.28', '1.12', '1.8', '1.0'])
            if kind == 'post_alloc':
                v = rng.choice(['1.39', '1.36', '1.28', '1.13'])
                body = {}
                for cc in rng.sample([1, 2, 3], rng.randint(1, 2)):
                    e = {'allocations': allocs(), 'project_id': 'proj%d' %
                         rng.randint(1, 2), 'user_id': 'user'}
                    if v >= '1.28':
                        e['consumer_generation'] = rng.choice(
                            [None, None, 0, 1, 2])
                    if v == '1.39':
                        e['consumer_type'] = rng.choice(['INSTANCE', 'OTHER'])
                    body[CONS(cc)] = e
                reqs.append(('POST', '/allocations', body, v))
            else:
                a = allocs()
                if v in ('1.8', '1.0'):
                    body = {'allocations': [
                        {'resource_provider': {'uuid': k},
                         'resources': x['resources']} for k, x in a.items()]}
                else:
                    body = {'allocations': a}
                if v != '1.0':
                    body['project_id'] = 'proj%d' % rng.randint(1, 2)
                    body['user_id'] = 'user%d' % rng.randint(1, 2)
                if v >= '1.28':
                    body['consumer_generation'] = rng.choice(
                        [None, None, 0, 1, 2])
                if v == '1.39':
                    body['consumer_type'] = rng.choice(['INSTANCE', 'OTHER'])
                reqs.append(('PUT', '/allocations/' + CONS(c), body, v))
        elif kind == 'del_alloc':
            reqs.append(('DELETE', '/allocations/' + CONS(c), None, ver))
        elif kind == 'get_rp':
            reqs.append(('GET', '/resource_providers/' + U(p), None, ver))
        elif kind == 'get_rps':
            qs = []
            if rng.random() < 0.3:
                qs.append('resources=%s:%d' % (rc, rng.choice([1, 2, 9])))
            if rng.random() < 0.3:
                qs.append('member_of=' + rng.choice(
                    [AGG(1), 'in:%s,%s' % (AGG(1), AGG(2)), '!' + AGG(1)]))
            if rng.random() < 0.3:
                qs.append('required=' + rng.choice(
                    ['CUSTOM_T1', '!CUSTOM_T1', 'in:CUSTOM_T1,CUSTOM_T2',
                     'HW_CPU_X86_AVX,!CUSTOM_T2']))
            if rng.random() < 0.3:
                qs.append('in_tree=' + U(p))
            if rng.random() < 0.2:
                qs.append('name=p%d' % p)
            reqs.append(('GET', '/resource_providers?' + '&'.join(qs), None,
                         '1.39'))
        elif kind == 'get_invs':
            reqs.append(('GET', '/resource_providers/%s/inventories' % U(p),
                         None, ver))
        elif kind == 'get_usages':
            reqs.append(('GET', '/resource_providers/%s/usages' % U(p),
                         None, ver))
        elif kind == 'get_allocs':
            reqs.append(('GET', '/allocations/' + CONS(c), None, ver))
        elif kind == 'get_rp_allocs':
            reqs.append(('GET', '/resource_providers/%s/allocations' % U(p),
                         None, ver))
        elif kind == 'get_aggs':
            reqs.append(('GET', '/resource_providers/%s/aggregates' % U(p),
                         None, rng.choice(['1.39', '1.1'])))
        elif kind == 'get_rp_traits':
            reqs.append(('GET', '/resource_providers/%s/traits' % U(p),
                         None, '1.39'))
        elif kind == 'get_proj_usages':
            q = 'project_id=proj%d' % rng.randint(1, 2)
            if rng.random() < 0.5:
                q += '&user_id=user%d' % rng.randint(1, 2)
            v = rng.choice(['1.39', '1.38', '1.30', '1.9'])
            if v >= '1.38' and rng.random() < 0.5:
                q += '&consumer_type=' + rng.choice(
                    ['all', 'unknown', 'INSTANCE'])
            reqs.append(('GET', '/usages?' + q, None, v))
        elif kind == 'get_cands':
            qs = ['resources=%s:%d' % (rc, rng.choice([1, 2]))]
            if rng.random() < 0.5:
                r2 = rng.choice(RCS)
                if r2 != rc:
                    qs[0] += ',%s:1' % r2
            if rng.random() < 0.4:
                qs.append('resources1=%s:1' % rng.choice(RCS))
                if rng.random() < 0.5:
                    qs.append('required1=' + rng.choice(
                        ['CUSTOM_T1', '!CUSTOM_T2']))
                if rng.random() < 0.5:
                    qs.append('resources2=%s:1' % rng.choice(RCS))
                    qs.append('group_policy=' + rng.choice(
                        ['none', 'isolate']))
                elif rng.random() < 0.5:
                    qs.append('group_policy=none')
            if rng.random() < 0.3:
                qs.append('required=' + rng.choice(
                    ['CUSTOM_T1', '!CUSTOM_T1', 'in:CUSTOM_T1,CUSTOM_T2']))
            if rng.random() < 0.3:
                qs.append('member_of=' + rng.choice(
                    [AGG(1), 'in:%s,%s' % (AGG(1), AGG(2)), '!' + AGG(2)]))
            if rng.random() < 0.2:
                qs.append('in_tree=' + U(p))
            if rng.random() < 0.2:
                qs.append('root_required=' + rng.choice(
                    ['CUSTOM_T1', '!CUSTOM_T1']))
            if rng.random() < 0.2:
                qs.append('limit=%d' % rng.randint(1, 3))
            reqs.append(('GET', '/allocation_candidates?' + '&'.join(qs),
                         None, rng.choice(['1.39', '1.39', '1.36'])))
        elif kind == 'put_trait':
            reqs.append(('PUT', '/traits/CUSTOM_T%d' % rng.randint(1, 4),
                         None, '1.39'))
        elif kind == 'del_trait':
            reqs.append(('DELETE', '/traits/' + rng.choice(
                TRAITS + ['CUSTOM_T3']), None, '1.39'))
        elif kind == 'get_traits':
            reqs.append(('GET', '/traits' + rng.choice(
                ['', '?associated=true', '?associated=false',
                 '?name=startswith:CUSTOM', '?name=in:CUSTOM_T1,CUSTOM_T9']),
                None, '1.39'))
        elif kind == 'post_rc':
            reqs.append(('POST', '/resource_classes',
                         {'name': 'CUSTOM_RC%d' % rng.randint(1, 3)}, '1.39'))
        elif kind == 'put_rc':
            reqs.append(('PUT', '/resource_classes/CUSTOM_RC%d'
                         % rng.randint(1, 3), None, '1.39'))
        elif kind == 'del_rc':
            reqs.append(('DELETE', '/resource_classes/' + rng.choice(
                ['CUSTOM_RC1', 'CUSTOM_RC2', 'CUSTOM_FOO', 'VCPU']),
                None, '1.39'))
        elif kind == 'get_rcs':
            reqs.append(('GET', '/resource_classes', None, '1.39'))
        elif kind == 'reshape':
            invs = {}
            for q in rng.sample([1, 2, 3], rng.randint(1, 2)):
                invs[U(q)] = {
                    'resource_provider_generation': g(q),
                    'inventories': {r: {'total': rng.choice([4, 8])}
                                    for r in rng.sample(RCS, rng.randint(0, 2))}}
            al = {}
            for cc in rng.sample([1, 2, 3], rng.randint(0, 2)):
                al[CONS(cc)] = {
                    'allocations': {U(q): {'resources': {rng.choice(RCS): 1}}
                                    for q in rng.sample(list(
                                        int(k[:8]) for k in invs), 1)},
                    'project_id': 'proj1', 'user_id': 'user1',
                    'consumer_generation': rng.choice([None, 1, 2]),
                    'consumer_type': 'INSTANCE'}
            reqs.append(('POST', '/reshaper',
                         {'inventories': invs, 'allocations': al}, '1.39'))
    return reqs


HEADERS = ('openstack-api-version', 'location')


def run_conversation(reqs, real):
    """returns list of (status, json, headers) and the canonical final state"""
    app.setup()
    ctx = ConcreteCtx({}) if real else SymConcreteCtx()
    PathCtx.cur = ctx
    out = []
    try:
        with World(ctx) as w:
            seed_world(w)
            for method, path, body, ver in reqs:
                try:
                    r = app.call(method, path, body, version=ver,
                                 roles='admin,service')
                    hd = {h: r.headers.get(h) for h in HEADERS}
                    js = r.json
                    if isinstance(js, dict) and 'errors' in js:
                        for e in js['errors']:
                            e.pop('request_id', None)
                            # text produced by the DB driver is not compared
                            e['detail'] = (e.get('detail') or '')[:75]
                    out.append((r.status, js, hd))
                except symex.EngineSignal as e:
                    out.append(('engine', repr(e), {}))
                except NotImplementedError as e:
                    out.append(('notimpl', str(e), {}))
            final = canon(w.dump())
    finally:
        PathCtx.cur = None
    return out, final


def compare(seed, n):
    rng = random.Random(seed)
    reqs = gen_requests(rng, n)
    a, fa = run_conversation(reqs, real=True)
    b, fb = run_conversation(reqs, real=False)
    diffs = []
    for i, (x, y) in enumerate(zip(a, b)):
        if json.dumps(x, sort_keys=True, default=str) != \
                json.dumps(y, sort_keys=True, default=str):
            diffs.append(dict(index=i, request=reqs[i], sqlite=x, symdb=y))
    if json.dumps(fa, sort_keys=True, default=str) != \
            json.dumps(fb, sort_keys=True, default=str):
        diffs.append(dict(index='final', sqlite=fa, symdb=fb))
    return reqs, diffs, a


def _norm(o):
    if isinstance(o, dict):
        return {k: _norm(v) for k, v in o.items()}
    if isinstance(o, (list, tuple)):
        return sorted((_norm(x) for x in o),
                      key=lambda x: json.dumps(x, sort_keys=True, default=str))
    return o


def validate(seeds, n=40):
    """Run the differential validation for the given seeds.  Returns a dict
    for the evidence file; 'disagreements' must be empty."""
    out = dict(programs=0, requests=0, disagreements=[], samples=[])
    for seed in seeds:
        reqs, diffs, a = compare(seed, n)
        out['programs'] += 1
        out['requests'] += len(reqs)
        for d in diffs:
            if d['index'] == 'final' or json.dumps(
                    _norm(d['sqlite']), sort_keys=True, default=str) != \
                    json.dumps(_norm(d['symdb']), sort_keys=True,
                               default=str):
                out['disagreements'].append(dict(seed=seed, **{
                    k: str(v)[:300] for k, v in d.items()}))
        if len(out['samples']) < 2:
            out['samples'].append(dict(seed=seed, first_requests=[
                '%s %s -> %s' % (r[0], r[1][:60], x[0])
                for r, x in list(zip(reqs, a))[:6]]))
    return out
