"""Crash points, database faults and schedules as explorer decisions
(DESIGN 3.5).  Hooks are installed on the SymDB (symbolic exploration) or on
the real engine/session (replay on SQLite); both count the same events so a
decision sequence found symbolically replays on the real back end.
"""
import greenlet
import sqlalchemy as sa
from sqlalchemy import event
from sqlalchemy.orm import Session
from oslo_db import exception as db_exc

from engine import symex
from engine.symex import Crash


class Hooks:
    """base: no-ops"""

    def on_begin(self, session):
        pass

    def on_execute(self, session, stmt):
        pass

    def on_commit(self, session):
        pass


# --------------------------------------------------------------------------
# crash points (C18)

class CrashHook(Hooks):
    """Before every writer commit the explorer decides whether the process
    dies there.  Work inside a transaction is discarded by the database, so
    crash points at the statements of a transaction collapse onto its commit;
    both numbers are counted."""

    def __init__(self):
        self.commits = 0
        self.statements = 0
        self.crashed_at = None

    def on_execute(self, session, stmt):
        self.statements += 1

    def on_commit(self, session):
        if self.crashed_at is not None:
            return
        if symex.choose(2, 'crash') == 1:
            self.crashed_at = self.commits
            raise Crash('before commit #%d' % self.commits)
        self.commits += 1


class _RealListeners:
    """installs engine/session listeners for the real back end"""

    def __init__(self, engine):
        self.engine = engine
        self._l = []

    def listen(self, target, name, fn):
        event.listen(target, name, fn)
        self._l.append((target, name, fn))

    def remove(self):
        for target, name, fn in self._l:
            event.remove(target, name, fn)
        self._l = []


def install_crash(world):
    """returns (hook, uninstall)"""
    h = CrashHook()
    if not world.concrete:
        world.db.hooks = h

        def un():
            world.db.hooks = None
        return h, un
    rl = _RealListeners(world.backend.engine)

    def before_commit(session):
        h.on_commit(session)

    def before_execute(conn, clauseelement, multiparams, params,
                       execution_options):
        h.statements += 1
    rl.listen(Session, 'before_commit', before_commit)
    rl.listen(world.backend.engine, 'before_execute', before_execute)
    return h, rl.remove


# --------------------------------------------------------------------------
# database faults (C17)

# the `commit-*` kinds strike at the COMMIT of a transaction that wrote
# something (Galera-style certification failure reported as a deadlock; a
# connection or server error at commit): the database has rolled the
# transaction back
FAULT_KINDS = ('deadlock', 'deadlock+rollback', 'duplicate', 'dberror',
               'commit-deadlock', 'commit-dberror')


class FaultHook(Hooks):
    """At every statement the explorer decides whether a fault is reported
    there (at most `budget` faults per request)."""

    def __init__(self, kinds=FAULT_KINDS, budget=1, world=None, only=None):
        self.kinds = kinds
        self.only = only        # predicate(stmt): may a fault strike here?
        self.budget = budget
        self.injected = []      # (statement index, kind, table)
        self.statements = 0
        self.world = world
        self._wrote = set()     # sessions whose open transaction has written

    @staticmethod
    def _skey(session):
        return id(getattr(session, '_s', None) or session)

    def on_begin(self, session):
        self._wrote.discard(self._skey(session))

    def on_commit(self, session):
        key = self._skey(session)
        wrote = key in self._wrote
        self._wrote.discard(key)
        if not wrote or len(self.injected) >= self.budget:
            return
        kinds = [k for k in self.kinds if k.startswith('commit-')]
        if not kinds:
            return
        k = symex.choose(1 + len(kinds), 'fault')
        if k == 0:
            return
        kind = kinds[k - 1]
        self.injected.append((self.statements, kind, 'Commit'))
        if kind == 'commit-deadlock':
            raise db_exc.DBDeadlock('injected deadlock at COMMIT')
        raise db_exc.DBError('injected database error at COMMIT')

    def _fault(self, session, kind, what):
        if kind == 'deadlock':
            raise db_exc.DBDeadlock('injected deadlock at %s' % what)
        if kind == 'deadlock+rollback':
            # the database rolled the transaction back (MySQL deadlock
            # victim): everything the transaction did so far is gone, the
            # connection stays usable
            self._db_rollback(session)
            raise db_exc.DBDeadlock('injected deadlock (rolled back) at %s'
                                    % what)
        if kind == 'duplicate':
            # A duplicate-key error means that a concurrent transaction has
            # just committed a row with the same key.  The statement's own
            # row is written (standing for the concurrent writer's) and the
            # error is reported in place of the statement.
            self._busy = True
            try:
                session.execute(self._stmt)
            finally:
                self._busy = False
            cols = [c.name for c in self._stmt.table.primary_key.columns]
            from sqlalchemy import UniqueConstraint
            for con in self._stmt.table.constraints:
                if isinstance(con, UniqueConstraint):
                    cols = [c.name for c in con.columns]
            raise db_exc.DBDuplicateEntry(columns=cols, value='injected')
        raise db_exc.DBError('injected database error at %s' % what)

    def _db_rollback(self, session):
        if hasattr(session, 'view'):          # SymSession
            session.view = session.db.committed.copy()
            session._pending = []
            session._persistent = {}
        else:
            # real Session: roll back on the DBAPI connection underneath and
            # start a fresh transaction, as the server would have done
            conn = session.connection()
            dbapi = conn.connection.dbapi_connection
            dbapi.rollback()

    # tables whose rows are fully determined by their key, so that "a
    # concurrent transaction inserted the same key" determines the row
    DUP_TABLES = ('resource_provider_aggregates', 'resource_provider_traits',
                  'placement_aggregates', 'projects', 'users',
                  'consumer_types')
    _busy = False

    def on_execute(self, session, stmt):
        if self._busy:
            return
        if isinstance(stmt, (sa.sql.dml.Insert, sa.sql.dml.Update,
                             sa.sql.dml.Delete)):
            self._wrote.add(self._skey(session))
        i = self.statements
        self.statements += 1
        if len(self.injected) >= self.budget:
            return
        if self.only is not None and not self.only(stmt):
            return
        kinds = [k for k in self.kinds if not k.startswith('commit-') and (
            k != 'duplicate' or (
                isinstance(stmt, sa.sql.dml.Insert) and
                stmt.table.name in self.DUP_TABLES))]
        k = symex.choose(1 + len(kinds), 'fault')
        if k == 0:
            return
        kind = kinds[k - 1]
        self._stmt = stmt
        what = type(stmt).__name__
        if what.startswith('Annotated'):     # ORM-built DML on the real side
            what = what[len('Annotated'):]
        tbl = getattr(getattr(stmt, 'table', None), 'name', None)
        if tbl is None:
            try:
                from engine.symdb import stmt_tables
                tbl = '+'.join(sorted(stmt_tables(stmt)))
            except Exception:
                tbl = None
        if tbl:
            what = '%s(%s)' % (what, tbl)
        self.injected.append((i, kind, what))
        self._fault(session, kind, '%s #%d' % (what, i))


def install_faults(world, kinds=FAULT_KINDS, budget=1, only=None):
    h = FaultHook(kinds, budget, world, only)
    if not world.concrete:
        world.db.hooks = h

        def un():
            world.db.hooks = None
        return h, un
    rl = _RealListeners(world.backend.engine)
    sessions = {}

    def after_begin(session, transaction, connection):
        sessions[id(connection)] = session
        h.on_begin(session)

    def before_execute(conn, clauseelement, multiparams, params,
                       execution_options):
        if not isinstance(clauseelement, (sa.sql.selectable.Select,
                                          sa.sql.dml.Insert,
                                          sa.sql.dml.Update,
                                          sa.sql.dml.Delete)):
            return
        s = sessions.get(id(conn))
        h.on_execute(_RealSessionProxy(s, conn), clauseelement)

    def before_commit(session):
        # SQLAlchemy fires before_commit ahead of the flush; the fault is
        # decided where the COMMIT itself would be sent (as SymSession does)
        session.flush()
        h.on_commit(session)
    rl.listen(Session, 'after_begin', after_begin)
    rl.listen(Session, 'before_commit', before_commit)
    rl.listen(world.backend.engine, 'before_execute', before_execute)
    return h, rl.remove


class _RealSessionProxy:
    def __init__(self, session, conn):
        self._s = session
        self._c = conn

    def connection(self):
        return self._c

    def execute(self, stmt):
        return self._c.execute(stmt)


# --------------------------------------------------------------------------
# schedules (C05-C07): requests run as greenlets and can be pre-empted at
# the begin of a top-level transaction

CONTENDED = ('resource_providers', 'inventories', 'allocations', 'consumers',
             'resource_provider_traits', 'resource_provider_aggregates',
             'placement_aggregates')


class Scheduler(Hooks):
    """Requests run as greenlets.  A request can be pre-empted only when a
    top-level transaction of it (opened while it holds no other open
    transaction) is about to touch a contended table for the first time.
    Until then the transaction has only read tables nobody in the scenario
    writes, so yielding there is equivalent to yielding at its begin
    (those reads commute with every other transaction); this is the
    independence reduction of DESIGN 3.5.  At any time at most one
    transaction that touched contended data is in flight: transactions are
    atomic and isolated, the granularity the properties fix."""

    def __init__(self, contended=CONTENDED):
        self.main = None
        self.points = 0
        self.trace = []
        self.open = {}          # greenlet -> number of open sessions
        self.armed = {}         # session id -> may still yield
        self.contended = set(contended)
        self.log = {}           # request index -> list of events
        self.index = {}         # greenlet -> request index
        self.observe = None     # callback(session, event) for harnesses
        # context bound (CHESS-style): at most this many switches away from
        # a request that could have continued; None = unbounded
        self.max_preemptions = None
        self.preemptions = 0

    def _me(self):
        g = greenlet.getcurrent()
        if self.main is None or g is self.main:
            return None
        return g

    def on_begin(self, session):
        g = self._me()
        if g is None:
            return
        n = self.open.get(g, 0)
        self.open[g] = n + 1
        self.armed[id(session)] = (n == 0)

    def on_end(self, session):
        g = self._me()
        if g is None:
            return
        if self.open.get(g, 0) > 0:
            self.open[g] -= 1
        self.armed.pop(id(session), None)

    def on_execute(self, session, stmt):
        g = self._me()
        if g is None:
            return
        if not self.armed.get(id(session)):
            return
        from engine.symdb import stmt_tables
        if not (stmt_tables(stmt) & self.contended):
            return
        self.armed[id(session)] = False
        self.points += 1
        real = not hasattr(session, 'view')
        dbapi = None
        if real:
            # all requests share the one DBAPI connection of the in-memory
            # SQLite database: end this (so far read-only) transaction at
            # the driver level before another request runs, otherwise the
            # other request's COMMIT ends it and the statements that follow
            # here run in autocommit mode
            try:
                sa_conn = session.connection()
                dbapi = sa_conn.connection.dbapi_connection
                dbapi.rollback()
                st = getattr(sa_conn.engine, '_verif_txn_state', None)
                if st is not None:
                    st['owner'] = None
            except Exception:
                dbapi = None
        self.main.switch('txn')
        # resumed: this transaction has done nothing but read uncontended
        # tables so far; let it see the current committed state
        if hasattr(session, 'view') and not session.dirty:
            session.view = session.db.committed.copy()
        if dbapi is not None:
            try:
                dbapi.execute('BEGIN')
                # oslo.db keeps "a transaction is open" in the (shared)
                # connection record; the other request's COMMIT cleared it
                sa_conn = session.connection()
                sa_conn.info['in_transaction'] = True
                st = getattr(sa_conn.engine, '_verif_txn_state', None)
                if st is not None:
                    st['owner'] = id(sa_conn)
            except Exception:
                pass
        if self.observe is not None:
            self.observe(self.index.get(g), session, 'txn-start')

    def on_commit(self, session):
        g = self._me()
        if g is None:
            return
        if self.observe is not None:
            self.observe(self.index.get(g), session, 'commit')

    def run(self, thunks):
        """thunks: one callable per request.  Runs them under the
        interleaving chosen by the explorer; returns their results."""
        self.main = greenlet.getcurrent()
        results = [None] * len(thunks)
        errors = [None] * len(thunks)

        def mk(i):
            def body():
                try:
                    results[i] = thunks[i]()
                except symex.EngineSignal as e:
                    errors[i] = e
            return body
        gls = [greenlet.greenlet(mk(i)) for i in range(len(thunks))]
        for i, g in enumerate(gls):
            self.index[g] = i
        alive = list(range(len(thunks)))
        try:
            last = None
            while alive:
                if self.max_preemptions is not None and last in alive and \
                        self.preemptions >= self.max_preemptions:
                    k = last        # bound reached: run on to completion
                else:
                    k = alive[symex.choose(len(alive), 'sched')]
                    if last in alive and k != last:
                        self.preemptions += 1
                last = k
                self.trace.append(k)
                gls[k].switch()
                if gls[k].dead:
                    alive.remove(k)
                    if errors[k] is not None:
                        raise errors[k]
        finally:
            self.main = None
            for g in gls:
                if not g.dead:
                    g.throw(greenlet.GreenletExit)
        return results


def install_scheduler(world, contended=CONTENDED):
    s = Scheduler(contended)
    if not world.concrete:
        world.db.hooks = s

        def un():
            world.db.hooks = None
        return s, un
    rl = _RealListeners(world.backend.engine)
    current = {}

    def created(session, transaction):
        if transaction.parent is None and not transaction.nested:
            s.on_begin(session)

    def ended(session, transaction):
        if transaction.parent is None and not transaction.nested:
            s.on_end(session)

    def after_begin(session, transaction, connection):
        current[id(connection)] = session

    def before_execute(conn, clauseelement, multiparams, params,
                       execution_options):
        sess = current.get(id(conn))
        if sess is not None and isinstance(
                clauseelement, (sa.sql.selectable.Select, sa.sql.dml.Insert,
                                sa.sql.dml.Update, sa.sql.dml.Delete)):
            if not isinstance(clauseelement, sa.sql.selectable.Select):
                sess.info.setdefault('verif_writes', set()).add(
                    clauseelement.table.name)
            s.on_execute(sess, clauseelement)

    def before_commit(session):
        s.on_commit(session)
    rl.listen(Session, 'after_transaction_create', created)
    rl.listen(Session, 'after_transaction_end', ended)
    rl.listen(Session, 'after_begin', after_begin)
    rl.listen(Session, 'before_commit', before_commit)
    rl.listen(world.backend.engine, 'before_execute', before_execute)
    un_join = _join_nested_transactions(world.backend.engine, rl)

    def remove():
        rl.remove()
        un_join()
    return s, remove


def _join_nested_transactions(engine, rl):
    """All sessions of a replay share the one DBAPI connection of the
    in-memory SQLite database.  placement opens an *independent* transaction
    inside an open one (replace_all() re-reads the providers before a retry);
    in production that is another connection and the outer transaction stays
    open.  Here its ROLLBACK/COMMIT would end the outer transaction, whose
    remaining statements would then run in autocommit mode.  So: the first
    SQLAlchemy connection that begins owns the DBAPI transaction; a
    connection that begins while it is open joins it, and its end is not
    passed to the driver."""
    state = dict(owner=None, skip=False)
    engine._verif_txn_state = state
    dialect = engine.dialect
    real_rollback, real_commit = dialect.do_rollback, dialect.do_commit

    def on_begin(conn):
        if state['owner'] is None:
            state['owner'] = id(conn)

    def on_end(conn):
        if state['owner'] == id(conn) or state['owner'] is None:
            state['owner'] = None
        else:
            state['skip'] = True
            # oslo.db's own listener forgets that a transaction is open
            conn.info['verif_rejoin'] = True

    # the owner's own end clears state['owner'] (event, before the driver
    # call); every driver-level end that arrives while somebody owns an open
    # transaction comes from a joiner (its end, or the pool's reset when its
    # connection is returned) and is not passed on
    def do_rollback(dbapi_conn):
        if state['owner'] is not None:
            return
        real_rollback(dbapi_conn)

    def do_commit(dbapi_conn):
        if state['owner'] is not None:
            return
        real_commit(dbapi_conn)

    def after_end(conn):
        if conn.info.pop('verif_rejoin', False):
            conn.info['in_transaction'] = True
    rl.listen(engine, 'begin', on_begin)
    rl.listen(engine, 'rollback', on_end)
    rl.listen(engine, 'commit', on_end)
    dialect.do_rollback, dialect.do_commit = do_rollback, do_commit

    def undo():
        dialect.do_rollback, dialect.do_commit = real_rollback, real_commit
    # after the driver call SQLAlchemy has no event; restore oslo.db's flag
    # lazily: the next 'begin' of any connection sees it through on_begin2
    def on_begin2(conn):
        if state['owner'] is not None and state['owner'] != id(conn):
            conn.info['in_transaction'] = True
    rl.listen(engine, 'begin', on_begin2, )
    return undo


class Multi(Hooks):
    """several hook objects behind the single SymDB hook slot"""

    def __init__(self, *hs):
        self.hs = hs

    def on_begin(self, session):
        for h in self.hs:
            h.on_begin(session)

    def on_execute(self, session, stmt):
        for h in self.hs:
            h.on_execute(session, stmt)

    def on_commit(self, session):
        for h in self.hs:
            h.on_commit(session)

    def on_end(self, session):
        for h in self.hs:
            if hasattr(h, 'on_end'):
                h.on_end(session)


def is_dml(stmt):
    return isinstance(stmt, (sa.sql.dml.Insert, sa.sql.dml.Update,
                             sa.sql.dml.Delete))


def install_scheduler_and_faults(world, kinds, budget=1, only=is_dml):
    """schedules and faults together (a fault at a chosen statement of a
    chosen interleaving)"""
    if not world.concrete:
        s = Scheduler()
        f = FaultHook(kinds, budget, world, only)
        world.db.hooks = Multi(s, f)

        def un():
            world.db.hooks = None
        return s, f, un
    s, un1 = install_scheduler(world)
    f, un2 = install_faults(world, kinds, budget, only)

    def un():
        un2()
        un1()
    return s, f, un
