"""Glue between the symbolic engine and the real placement application:
configuration, the real deploy.deploy() WSGI stack, the shims at C boundaries
(DESIGN 3.4) and a request helper.

The placement sources are taken from $PLACEMENT_SRC (default /repo) — i.e.
from the current working tree on every run.
"""
import copy
import json
import logging
import os
import sys

SRC = os.environ.get('PLACEMENT_SRC', '/repo')
if SRC not in sys.path:
    sys.path.insert(0, SRC)
os.environ.setdefault('PLACEMENT_VERIF', '1')

import z3  # noqa: E402
import jsonschema  # noqa: E402
import webob  # noqa: E402
from oslo_config import cfg  # noqa: E402
import oslo_db.api  # noqa: E402

from engine import symex  # noqa: E402
from engine import symdb  # noqa: E402
from engine.symex import SymNum, Sym, PathCtx  # noqa: E402

logging.disable(logging.CRITICAL)  # LOG.debug('%d', proxy) never formats

from placement import conf as pconf  # noqa: E402
from placement import db_api, deploy, policy, policies  # noqa: E402
from placement import util as putil  # noqa: E402
from placement import lib as plib  # noqa: E402
from placement.db.sqlalchemy import models  # noqa: E402
from placement.objects import allocation_candidate as ac_obj  # noqa: E402
from placement.objects import inventory as inv_obj  # noqa: E402
from placement.objects import usage as usage_obj  # noqa: E402
from placement.objects import trait as trait_obj  # noqa: E402
from placement.objects import resource_class as rc_obj  # noqa: E402
import placement.handlers.aggregate  # noqa: E402,F401
import placement.handlers.allocation  # noqa: E402,F401
import placement.handlers.allocation_candidate  # noqa: E402,F401
import placement.handlers.inventory  # noqa: E402,F401
import placement.handlers.resource_class  # noqa: E402,F401
import placement.handlers.resource_provider  # noqa: E402,F401
import placement.handlers.trait  # noqa: E402,F401
import placement.handlers.usage  # noqa: E402,F401
import placement.handlers.reshaper  # noqa: E402,F401
import placement.handlers.root  # noqa: E402,F401

oslo_db.api.time.sleep = lambda s: None

# --------------------------------------------------------------------------
# JSON shims

SYMDOCS = {}        # n -> python document with proxies (request bodies)
RESPDOCS = {}       # n -> python structure a handler serialised
_real_jsonutils = putil.jsonutils


def _has_sym(o):
    if isinstance(o, Sym):
        return True
    if isinstance(o, dict):
        return any(_has_sym(k) or _has_sym(v) for k, v in o.items())
    if isinstance(o, (list, tuple, set)):
        return any(_has_sym(v) for v in o)
    return False


def _jsonable(o):
    """what json would make of the containers, proxies kept as they are"""
    if isinstance(o, dict):
        return {(_jsonable(k) if not isinstance(k, str) else k): _jsonable(v)
                for k, v in o.items()}
    if isinstance(o, (list, tuple, set, frozenset)):
        return [_jsonable(v) for v in o]
    return o


class JsonShim:
    def __getattr__(self, k):
        return getattr(_real_jsonutils, k)

    @staticmethod
    def loads(body, *a, **kw):
        d = _real_jsonutils.loads(body, *a, **kw)
        if isinstance(d, dict) and len(d) == 1 and '$symdoc' in d:
            return copy.deepcopy(SYMDOCS[d['$symdoc']])
        return d

    @staticmethod
    def dumps(obj, *a, **kw):
        if _has_sym(obj) and kw.get('ensure_ascii') is False:
            # the caller is going to encode the text: strings that cannot
            # be encoded (lone surrogates) fail there; fail here instead
            # (the token returned below does not contain them)
            def walk(n):
                if isinstance(n, str):
                    n.encode('utf-8')
                elif isinstance(n, dict):
                    for k, v in n.items():
                        walk(k)
                        walk(v)
                elif isinstance(n, (list, tuple, set)):
                    for v in n:
                        walk(v)
            walk(obj)
        if _has_sym(obj):
            n = len(RESPDOCS) + 1
            RESPDOCS[n] = _jsonable(obj)
            return '{"$resp": %d}' % n
        return _real_jsonutils.dumps(obj, *a, **kw)


_JS = JsonShim()
for _m in list(sys.modules.values()):
    if _m is not None and getattr(_m, '__name__', '').startswith('placement') \
            and getattr(_m, 'jsonutils', None) is _real_jsonutils:
        _m.jsonutils = _JS

_tc = jsonschema.Draft4Validator.TYPE_CHECKER


def _is_int(checker, inst):
    if isinstance(inst, SymNum):
        return inst.is_int
    return _tc.is_type(inst, 'integer')


def _is_num(checker, inst):
    if isinstance(inst, SymNum):
        return True
    return _tc.is_type(inst, 'number')


_VALIDATORS = {}


def sym_validate(instance, schema, *args, **kw):
    """jsonschema.validate with a type checker that knows proxies."""
    cls = jsonschema.validators.validator_for(schema)
    ext = _VALIDATORS.get(cls)
    if ext is None:
        ext = _VALIDATORS[cls] = jsonschema.validators.extend(
            cls, type_checker=cls.TYPE_CHECKER.redefine_many(
                {'integer': _is_int, 'number': _is_num}))
    v = ext(schema, *args, **kw)
    if _has_sym(instance):
        # jsonschema.validate reports the *best* of all errors, which makes
        # every symbolic leaf fork independently (3^leaves rejected paths
        # that differ only in the error text).  Whether there is an error
        # does not depend on that choice: stop at the first one.
        err = next(v.iter_errors(instance), None)
    else:
        err = jsonschema.exceptions.best_match(v.iter_errors(instance))
    if err is not None:
        raise err


class JSShim:
    def __getattr__(self, k):
        return getattr(jsonschema, k)
    validate = staticmethod(sym_validate)


_JSS = JSShim()
putil.jsonschema = _JSS
placement.handlers.trait.jsonschema = _JSS

# int()/float() on request numbers
for _m in (putil, plib, ac_obj, inv_obj, usage_obj):
    _m.int = symex.sym_int
plib.RequestGroup.__str__ = lambda self: 'RequestGroup'

# --------------------------------------------------------------------------
# configuration and the real WSGI stack

CONF = None
APP = None


def setup(**overrides):
    """Build the real application once per process."""
    global CONF, APP
    if APP is not None:
        return APP
    CONF = cfg.ConfigOpts()
    pconf.register_opts(CONF)
    CONF.set_default('connection', 'sqlite://', group='placement_database')
    try:
        CONF.register_opt(cfg.BoolOpt('enforce_scope', default=False),
                          group='oslo_policy')
    except cfg.DuplicateOptError:
        pass
    CONF([], default_config_files=[])
    CONF.set_override('auth_strategy', 'noauth2', group='api')
    policy.reset()
    policy.init(CONF, suppress_deprecation_warnings=True,
                rules=copy.deepcopy(policies.list_rules()))
    APP = deploy.deploy(CONF)
    return APP


def set_conf(group, **kw):
    for k, v in kw.items():
        CONF.set_override(k, v, group=group)


class Response:
    def __init__(self, resp):
        self.status = resp.status_int
        self.headers = resp.headers
        self.raw = resp
        self.body = resp.body
        self.json = None
        ct = resp.content_type or ''
        if resp.body and 'json' in ct:
            try:
                d = json.loads(resp.body)
            except ValueError:
                d = None
            if isinstance(d, dict) and len(d) == 1 and '$resp' in d:
                d = RESPDOCS[d['$resp']]
            self.json = d

    @property
    def error_code(self):
        try:
            return self.json['errors'][0].get('code')
        except Exception:
            return None

    @property
    def error_detail(self):
        try:
            return self.json['errors'][0].get('detail')
        except Exception:
            return None


def call(method, path, body=None, version="1.39", token="admin", roles=None,
         headers=None, app=None, raw_body=None, content_type=None,
         environ=None):
    """One request through the complete real WSGI stack.  environ: WSGI
    environ entries set after the request object is built (e.g. a
    CONTENT_LENGTH that does not describe the body)."""
    h = {'accept': 'application/json'}
    if token is not None:
        h['x-auth-token'] = token
    if roles is not None:
        h['x-roles'] = roles
    if version is not None:
        h['openstack-api-version'] = 'placement 1.$m' if version == 'sym' \
            else 'placement %s' % version
    kw = {}
    if body is not None:
        h['content-type'] = 'application/json'
        if _has_sym(body):
            n = len(SYMDOCS) + 1
            SYMDOCS[n] = body
            kw['body'] = ('{"$symdoc": %d}' % n).encode()
        else:
            kw['body'] = json.dumps(body).encode()
    if raw_body is not None:
        kw['body'] = raw_body
        if content_type:
            h['content-type'] = content_type
    if headers:
        h.update(headers)
    req = webob.Request.blank(path, method=method, headers=h, **kw)
    if environ:
        req.environ.update(environ)
    r = Response(req.get_response(app or APP))
    # whether the request's Accept header admits JSON (the error-body clause
    # of C15 is conditional on it)
    r.accepts_json = bool(req.accept.acceptable_offers(['application/json']))
    return r


# --------------------------------------------------------------------------
# per-path database installation

class Installed:
    def __init__(self, db, reset):
        self.db = db
        self._reset = reset

    def close(self):
        self._reset()


def install(db):
    """Route every enginefacade scope of placement to the symbolic DB."""
    SYMDOCS.clear()
    RESPDOCS.clear()
    fac = symdb.make_factory(db)
    reset = db_api.placement_context_manager.patch_factory(fac)
    # sync flags: the tables are seeded by the scenario, not by ensure_sync
    trait_obj._TRAITS_SYNCED = True
    rc_obj._RESOURCE_CLASSES_SYNCED = True
    return Installed(db, reset)


def new_db():
    return symdb.SymDB(models.BASE.metadata)


# --------------------------------------------------------------------------
# symbolic microversion: the negotiation middleware (strings) runs for real
# on concrete headers; with version='sym' the version it hands to the
# application is Version(1, <symbolic minor>) instead (DESIGN 5/C14).

import microversion_parse as _mvp  # noqa: E402

_real_extract_version = _mvp.extract_version


def _extract_version(headers, service_type, versions):
    folded = _mvp.fold_headers(headers)
    val = folded.get('openstack-api-version', '')
    if val.strip() == 'placement 1.$m':
        ctx = PathCtx.cur
        minor = ctx.data['minor']
        v = _mvp.Version(1, minor)
        v.max_version = _mvp.parse_version_string(versions[-1])
        v.min_version = _mvp.parse_version_string(versions[0])
        return v
    return _real_extract_version(headers, service_type, versions)


_mvp.extract_version = _extract_version


def sym_minor(ctx, lo=0, hi=39, name='minor'):
    """declare the symbolic minor version used by call(version='sym')"""
    m = ctx.int(name, lo, hi)
    ctx.data['minor'] = m
    return m
