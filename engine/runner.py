"""Check runner: explores scenario families, discharges obligations with z3,
refines and replays counterexamples on real SQLite, applies the
known-findings file, writes evidence, prints the verdict lines.

Exit codes: 0 held (possibly with KNOWN-FINDING lines); 1 VIOLATION (replayed,
not listed); 2 inconclusive (solver unknown / budget); 3 harness error
(non-reproducing model, engine abort, vacuity).
"""
import argparse
import collections
import hashlib
import json
import os
import re
import sys
import time
import traceback

import z3

from engine import symex
from engine.symex import PathCtx

VERIF = os.path.dirname(os.path.dirname(os.path.abspath(__file__)))
RATIO_GRID = [1, 0.5, 1.5, 2, 4, 16, 0.25, 0, -1]
STEP_GRID = [1, 2, 3, 4, 5, 7]


# --------------------------------------------------------------------------
# in-path API

def _collect(t, pred, acc, seen):
    k = t.get_id()
    if k in seen:
        return
    seen.add(k)
    if pred(t):
        acc.append(t)
    if z3.is_app(t):
        for i in range(t.num_args()):
            _collect(t.arg(i), pred, acc, seen)


def concrete_model(ctx, bad, timeout_ms=20000):
    """Counterexample refinement (DESIGN 3.2): re-solve PC /\\ bad with exact
    arithmetic.  Returns ('sat', values) | ('unsat', None) | ('unknown', None)
    """
    fs = list(ctx.pc) + [bad]
    uses_uf = []
    seen = set()
    for f in fs:
        _collect(f, lambda t: z3.is_app(t) and (t.decl().eq(symex.FMUL) or
                                                t.decl().eq(symex.IMOD)),
                 uses_uf, seen)
    if not uses_uf:
        r = ctx.check(bad, timeout_ms=timeout_ms)
        if r == 'sat':
            return 'sat', ctx.model_values(ctx.last_model)
        return r, None
    exact = [symex.exactify(f) for f in fs]
    reals = [v for v in ctx.vars.values() if v.sort() == z3.RealSort()]
    steps = []
    for t in uses_uf:
        if t.decl().eq(symex.IMOD) and z3.is_const(t.arg(1)) and \
                not z3.is_int_value(t.arg(1)):
            steps.append(t.arg(1))
    # first: substitute grid values for the real-valued variables (ratios),
    # which makes the products linear - decided in milliseconds where the
    # nonlinear solver can take its whole timeout
    import itertools
    used_reals = []
    seen_r = set()
    for f in exact:
        _collect(f, lambda t: z3.is_const(t) and t.sort() == z3.RealSort()
                 and t.decl().kind() == z3.Z3_OP_UNINTERPRETED,
                 used_reals, seen_r)
    if used_reals and len(used_reals) <= 3:
        combos = itertools.islice(itertools.product(
            RATIO_GRID[:6], repeat=len(used_reals)), 60)
        for combo in combos:
            sub = [(v, z3.RealVal(str(g))) for v, g in zip(used_reals, combo)]
            s = z3.Solver()
            s.set('timeout', 2000)
            s.set('rlimit', 4000000)
            for f in exact:
                s.add(z3.substitute(f, *sub))
            t0 = time.time()
            r = str(s.check())
            ctx.nq += 1
            ctx.tq += time.time() - t0
            if r == 'sat':
                m = s.model()
                vals = ctx.model_values(m)
                for v, g in zip(used_reals, combo):
                    vals[str(v)] = g
                return 'sat', vals
    attempts = []
    grid = [z3.Or(*[v == z3.RealVal(str(g)) for g in RATIO_GRID])
            for v in reals]
    sgrid = [z3.Or(*[s == g for g in STEP_GRID]) for s in steps]
    attempts.append(grid + sgrid)
    attempts.append(grid)
    attempts.append([])
    last = 'unknown'
    for i, extra in enumerate(attempts):
        s = z3.Solver()
        s.set('timeout', timeout_ms)
        # the nonlinear engine does not always honour the timeout; the
        # resource limit is checked everywhere
        s.set('rlimit', 20000000)
        for f in exact:
            s.add(f)
        for e in extra:
            s.add(e)
        t0 = time.time()
        r = str(s.check())
        ctx.nq += 1
        ctx.tq += time.time() - t0
        if r == 'sat':
            return 'sat', ctx.model_values(s.model())
        if r == 'unsat' and not extra:
            return 'unsat', None
        if r == 'unknown':
            last = 'unknown'
    return last, None


def obligation(ctx, clause, bad, desc='', sig=''):
    """Discharge one proof obligation on the current path: `bad` (a z3 Bool
    describing a violation) must be unsatisfiable under the path condition."""
    d = ctx.data
    d['obligations'] = d.get('obligations', 0) + 1
    if isinstance(bad, symex.Sym):
        bad = bad.z
    if isinstance(bad, bool):
        bad = z3.BoolVal(bad)
    bad = z3.simplify(bad)
    if z3.is_false(bad):
        d['discharged'] = d.get('discharged', 0) + 1
        return True
    r = ctx.check(bad)
    if r == 'unsat':
        d['discharged'] = d.get('discharged', 0) + 1
        _crosscheck(ctx, clause, bad)
        return True
    if getattr(ctx, 'concrete', False):
        # replay run: a satisfiable violation formula over constants
        d.setdefault('violations', []).append(dict(
            clause=clause, desc=desc, sig=sig, values=dict(ctx.values),
            choices=list(ctx.choices), kind='replayed'))
        return False
    if r == 'sat':
        key = (clause, sig)
        if _FOUND.get(key, 0) >= 3:
            # this worker already produced replayable models for the same
            # clause and fingerprint; one representative is replayed, so do
            # not pay for the exact re-solve again (the violation is still
            # recorded; without values it is never the representative)
            d.setdefault('violations', []).append(dict(
                clause=clause, desc=desc, sig=sig, values=None,
                choices=list(ctx.choices), kind='model'))
            return False
        rr, values = concrete_model(ctx, bad)
        if rr == 'sat':
            _FOUND[key] = _FOUND.get(key, 0) + 1
        d['refinements'] = d.get('refinements', 0) + 1
        if rr == 'unsat':
            d['discharged'] = d.get('discharged', 0) + 1
            d['spurious_abstract'] = d.get('spurious_abstract', 0) + 1
            return True
        if rr == 'sat':
            d.setdefault('violations', []).append(dict(
                clause=clause, desc=desc, sig=sig, values=values,
                choices=list(ctx.choices), kind='model'))
            return False
    d.setdefault('violations', []).append(dict(
        clause=clause, desc=desc, sig=sig, values=None,
        choices=list(ctx.choices), kind='unknown'))
    return False


_FOUND = {}
XCHECK_DIR = os.environ.get('VERIF_XCHECK_DIR')
XCHECK_EVERY = int(os.environ.get('VERIF_XCHECK_EVERY', '97'))
_xcount = [0]


def _crosscheck(ctx, clause, bad):
    """thorough tier: a sample of discharged obligations is written out as
    SMT-LIB2 and re-decided by independent solver binaries (DESIGN 3.2)"""
    if not XCHECK_DIR or getattr(ctx, 'concrete', False):
        return
    _xcount[0] += 1
    if _xcount[0] % XCHECK_EVERY:
        return
    s = z3.Solver()
    for c in ctx.pc:
        s.add(c)
    for a in ctx.axioms:
        s.add(a)
    s.add(bad)
    name = os.path.join(XCHECK_DIR, '%d-%d-%s.smt2' % (
        os.getpid(), _xcount[0], clause[:30]))
    with open(name, 'w') as f:
        f.write(s.to_smt2())


def run_crosscheck(dirname, limit=60):
    """re-decide the sampled queries with /usr/bin/z3 (4.8) and cvc5"""
    import glob
    import subprocess
    res = dict(sampled=0, z3_old_unsat=0, cvc5_unsat=0, disagree=[],
               inconclusive=0)
    for fn in sorted(glob.glob(os.path.join(dirname, '*.smt2')))[:limit]:
        res['sampled'] += 1
        for tool, cmd in (('z3_old', ['/usr/bin/z3', '-T:20', fn]),
                          ('cvc5', ['cvc5', '--tlimit=20000', fn])):
            try:
                p = subprocess.run(cmd, capture_output=True, text=True,
                                   timeout=40)
                out = p.stdout.strip().splitlines()
                ans = out[0] if out else 'error'
                if '(error' in p.stdout or '(error' in p.stderr:
                    ans = 'error'
            except Exception:
                ans = 'timeout'
            if ans == 'unsat':
                res[tool + '_unsat'] += 1
            elif ans == 'sat':
                res['disagree'].append('%s says sat on %s' % (tool, fn))
            else:
                res['inconclusive'] += 1
    return res


def violation(ctx, clause, desc='', sig=''):
    """A violation that holds on the whole current path (e.g. an escaped
    exception): any model of the path condition is a counterexample."""
    return obligation(ctx, clause, z3.BoolVal(True), desc, sig)


def finish(ctx, outcome, info=None):
    d = ctx.data
    return dict(outcome=outcome, violations=d.get('violations', []),
                info=dict(obligations=d.get('obligations', 0),
                          discharged=d.get('discharged', 0),
                          refinements=d.get('refinements', 0),
                          spurious=d.get('spurious_abstract', 0),
                          extra=info))


# --------------------------------------------------------------------------

class Family:
    def __init__(self, name, path_fn, expect=(), bounds=None, note='',
                 conformance=True):
        # conformance=False: passing paths of this family are not sampled
        # for re-execution on the real application (used where the real-mode
        # emulation of an injected fault is known to be weaker than the
        # symbolic one, see DESIGN 11.11)
        self.conformance = conformance
        self.name = name
        self.path_fn = path_fn
        self.expect = set(expect)    # outcome classes that must be reachable
        self.bounds = bounds or {}
        self.note = note


def load_known():
    p = os.path.join(VERIF, 'known_findings.json')
    if not os.path.exists(p):
        return []
    return json.load(open(p)).get('findings', [])


def _match_known(known, prop, fam, v):
    for k in known:
        if k.get('status') != 'known' or k['property'] != prop:
            continue
        if k.get('family') not in (None, fam):
            continue
        if k.get('family_prefix') and not fam.startswith(k['family_prefix']):
            continue
        if k.get('clause') not in (None, v['clause']):
            continue
        if k.get('sig') not in (None, v.get('sig', '')):
            continue
        if k.get('sig_prefix') and not v.get('sig', '').startswith(
                k['sig_prefix']):
            continue
        if k.get('sig_regex') and not re.match(k['sig_regex'],
                                               v.get('sig', '')):
            continue
        return k
    return None


def replay(family, v):
    """Re-run the family's harness with the model's concrete values against
    the real application on real SQLite.  True iff the same clause fails."""
    from engine.scenario import ConcreteCtx
    ctx = ConcreteCtx(v['values'] or {})
    ctx.replay_choices = list(v.get('choices') or [])
    PathCtx.cur = ctx
    try:
        out = family.path_fn(ctx)
    except symex.EngineSignal as e:
        return False, 'engine signal in replay: %r' % (e,)
    except Exception as e:
        return False, 'replay raised %s: %s\n%s' % (
            type(e).__name__, e, traceback.format_exc()[-1500:])
    finally:
        PathCtx.cur = None
    vs = (out or {}).get('violations', [])
    for w in vs:
        if w['clause'] == v['clause']:
            return True, dict(outcome=out.get('outcome'), desc=w.get('desc'),
                              sig=w.get('sig'))
    return False, dict(outcome=(out or {}).get('outcome'),
                       other=[w['clause'] for w in vs])


_CONF_FAMS = []


def _conformance_one(args):
    """Translation validation per path (DESIGN 11.11): re-execute one
    explored path symbolically, take a model of its path condition (exact
    arithmetic), run the same harness with those values and decisions against
    the real application on real SQLite, and compare the outcome."""
    fi, prefix = args
    fam = _CONF_FAMS[fi]
    ctx = PathCtx(list(prefix))
    PathCtx.cur = ctx
    try:
        out = fam.path_fn(ctx)
    except BaseException as e:
        return ('skip', 'symbolic re-execution raised %s' % type(e).__name__)
    finally:
        PathCtx.cur = None
    if not out or out.get('violations'):
        return ('skip', 'path has violations')
    try:
        r, values = concrete_model(ctx, z3.BoolVal(True), timeout_ms=10000)
    except Exception as e:
        return ('skip', 'model: %s' % e)
    if r != 'sat':
        return ('skip', 'no exact model (%s)' % r)
    v = dict(values=values, choices=list(ctx.choices), clause='__none__')
    ok, detail = replay(fam, v)
    if isinstance(detail, str):
        return ('fail', 'symbolic outcome %r; %s' % (out.get('outcome'),
                                                     detail[:600]))
    if detail.get('outcome') != out.get('outcome') or detail.get('other'):
        # which conjuncts of the (exact) path condition do the values
        # falsify?  none = the encoding and the real application disagree
        sub = []
        for name, var in ctx.vars.items():
            if name in values and values[name] is not None:
                v_ = values[name]
                if var.sort() == z3.BoolSort():
                    sub.append((var, z3.BoolVal(bool(v_))))
                elif var.sort() == z3.IntSort():
                    sub.append((var, z3.IntVal(int(v_))))
                else:
                    sub.append((var, z3.RealVal(str(v_))))
        falsified = []
        for c in ctx.pc:
            try:
                e = z3.simplify(z3.substitute(symex.exactify(c), *sub))
                if z3.is_false(e):
                    falsified.append(str(c).replace('\n', ' ')[:160])
            except Exception:
                pass
        if falsified:
            # the sample itself is invalid (the values are not a model of the
            # exact path condition): nothing can be concluded from it
            return ('skip', 'values falsify the path condition: %s'
                    % falsified[:2])
        return ('fail', 'symbolic outcome %r, real outcome %r, real '
                'violations %s, decisions used %d of prefix %d, path '
                'condition conjuncts falsified by the values: %s; values %s, '
                'choices %s' % (
                    out.get('outcome'), detail.get('outcome'),
                    detail.get('other'), len(ctx.decisions), len(prefix),
                    falsified[:4], values, list(ctx.choices)))
    return ('ok', out.get('outcome'))


def conformance(fams, picked, workers=16):
    """picked: [(family index, prefix)] -> (n_ok, n_skipped, failures)"""
    import multiprocessing as mp
    from concurrent.futures import ProcessPoolExecutor
    global _CONF_FAMS
    _CONF_FAMS = fams
    if not picked:
        return 0, 0, []
    ok = skipped = 0
    fails = []
    with ProcessPoolExecutor(max_workers=min(workers, len(picked)),
                             mp_context=mp.get_context('fork')) as ex:
        for (fi, prefix), (st, detail) in zip(
                picked, ex.map(_conformance_one, picked, chunksize=1)):
            if st == 'ok':
                ok += 1
            elif st == 'skip':
                skipped += 1
            else:
                fails.append('%s: %s' % (fams[fi].name, detail))
    return ok, skipped, fails


def run_check(prop, families, level='model_checking', technique='',
              functions=(), assumptions=(), argv=None, quick_budget=420,
              thorough_budget=2400, extra_evidence=None, post=None):
    ap = argparse.ArgumentParser()
    ap.add_argument('--tier', default=os.environ.get('VERIF_TIER', 'quick'))
    ap.add_argument('--family', default=None)
    ap.add_argument('--replay', default=None)
    ap.add_argument('--workers', type=int, default=0)
    ap.add_argument('-v', action='store_true')
    args = ap.parse_args(argv)
    tier = args.tier if args.tier in ('quick', 'thorough') else 'quick'
    seed = int(os.environ.get('VERIF_SEED', '0') or 0)
    fams = families(tier) if callable(families) else families
    if args.family:
        fams = [f for f in fams if f.name == args.family or
                f.name.startswith(args.family)]
    if args.replay:
        return _replay_file(prop, fams, args.replay)
    t0 = time.time()
    xdir = None
    if tier == 'thorough' and os.environ.get('VERIF_NO_XCHECK') != '1':
        import tempfile
        global XCHECK_DIR
        xdir = tempfile.mkdtemp(prefix='verif-xcheck-')
        XCHECK_DIR = xdir
    budget = quick_budget if tier == 'quick' else thorough_budget
    known = load_known()
    totals = collections.Counter()
    by_outcome = collections.Counter()
    fam_ev = []
    samples = []
    viol_reported = []
    known_hit = {}
    inconclusive = []
    harness_errors = []
    conf_picked = []
    solver_s = 0.0
    for fam in fams:
        left = budget - (time.time() - t0)
        if left <= 1:
            inconclusive.append('%s: not explored, time budget exhausted'
                                % fam.name)
            continue
        # the cap on exact re-solves per (clause, fingerprint) is per family:
        # warm-up paths run in this process, whose state the workers inherit
        _FOUND.clear()
        results, stats = symex.explore(
            fam.path_fn, workers=args.workers or None, time_budget=left)
        oc = collections.Counter(r.outcome for r in results)
        ob = sum((r.info or {}).get('obligations', 0) for r in results)
        di = sum((r.info or {}).get('discharged', 0) for r in results)
        rf = sum((r.info or {}).get('refinements', 0) for r in results)
        totals['paths'] += stats['paths']
        totals['infeasible'] += stats['infeasible']
        totals['queries'] += stats['queries']
        totals['decisions'] += stats['decisions']
        totals['obligations'] += ob
        totals['discharged'] += di
        totals['refinements'] += rf
        totals['unknown_forks'] += stats['unknown_forks']
        totals['concretisations'] += stats.get('concretisations', 0)
        solver_s += stats['solver_s']
        by_outcome.update({'%s' % k: v for k, v in oc.items()})
        fam_ev.append(dict(family=fam.name, paths=stats['paths'],
                           outcomes={str(k): v for k, v in oc.items()},
                           obligations=ob, discharged=di,
                           queries=stats['queries'],
                           solver_s=round(stats['solver_s'], 2),
                           wall_s=round(stats['wall_s'], 2),
                           complete=stats['complete'], bounds=fam.bounds,
                           note=fam.note))
        if args.v:
            print('[%s] %s paths=%d outcomes=%s oblig=%d/%d q=%d %.1fs'
                  % (prop, fam.name, stats['paths'], dict(oc), di, ob,
                     stats['queries'], stats['wall_s']), flush=True)
        if not stats['complete']:
            inconclusive.append('%s: exploration budget exhausted' % fam.name)
        # conformance samples: per outcome class the path with the smallest
        # decision prefix (deterministic), at most CONF_PER_FAMILY
        by_oc = {}
        for r in results:
            if r.outcome in ('__engine__', '__harness_error__') or \
                    r.violations:
                continue
            k = str(r.outcome)
            if 'deadlock+rollback' in k:
                # the real-mode emulation of a database-side rollback on
                # single-connection SQLite is weaker than the symbolic one
                continue
            key = [str(x) for x in r.prefix]
            lo, hi = by_oc.get(k, (None, None))
            if lo is None or key < lo[0]:
                lo = (key, r.prefix)
            if hi is None or key > hi[0]:
                hi = (key, r.prefix)
            by_oc[k] = (lo, hi)
        per = int(os.environ.get('VERIF_CONF_PER_FAMILY', '0') or 0) or \
            (6 if tier == 'quick' else 20)
        cand = [by_oc[k][0][1] for k in sorted(by_oc)] + \
            [by_oc[k][1][1] for k in sorted(by_oc)
             if by_oc[k][1][0] != by_oc[k][0][0]]
        for pf in cand[:per]:
            if getattr(fam, 'conformance', True):
                conf_picked.append((fams.index(fam), pf))
        for r in results:
            if r.outcome in ('__engine__', '__harness_error__'):
                harness_errors.append('%s: %s' % (fam.name, r.error))
        missing = fam.expect - set(oc)
        if missing and stats['complete']:
            harness_errors.append(
                '%s: vacuity guard: outcome classes %s not reachable'
                % (fam.name, sorted(missing)))
        if results and len(samples) < 6:
            r = results[0]
            samples.append(dict(family=fam.name, outcome=str(r.outcome),
                                decisions=r.prefix[:40],
                                obligations=(r.info or {}).get('obligations')))
        # violations: dedupe by (clause, sig), replay each representative
        seen = {}
        for r in results:
            for v in r.violations:
                key = (v['clause'], v.get('sig', ''))
                if key not in seen or (seen[key]['values'] is None and
                                       v['values'] is not None):
                    seen[key] = v
        for key, v in seen.items():
            if v['kind'] == 'unknown':
                inconclusive.append('%s: clause %s: solver unknown'
                                    % (fam.name, v['clause']))
                continue
            ok, detail = replay(fam, v)
            totals['replays'] += 1
            if not ok:
                if os.environ.get('VERIF_KEEP_UNREPRODUCED'):
                    os.makedirs(os.path.join(VERIF, 'replays'), exist_ok=True)
                    json.dump(dict(property=prop, family=fam.name,
                                   clause=v['clause'], sig=v.get('sig'),
                                   desc=v.get('desc'), values=v['values'],
                                   choices=v.get('choices'),
                                   replay_detail=detail),
                              open(os.path.join(
                                  VERIF, 'replays', 'UNREPRODUCED-%s-%d.json'
                                  % (prop, len(harness_errors))), 'w'),
                              indent=1, default=str)
                harness_errors.append(
                    '%s: clause %s sig %s: model does not reproduce on the '
                    'real application: %s' % (fam.name, v['clause'],
                                              v.get('sig'), detail))
                continue
            k = _match_known(known, prop, fam.name, v)
            if k is not None:
                known_hit.setdefault(k['id'], (k, fam.name, v))
                continue
            viol_reported.append((fam, v, detail))
    xres = None
    if xdir:
        import shutil
        xres = run_crosscheck(xdir)
        shutil.rmtree(xdir, ignore_errors=True)
        if xres['disagree']:
            harness_errors.append('solver cross-check disagrees: %s'
                                  % xres['disagree'][:3])
    wall = time.time() - t0
    if post is not None:
        post_ev = post(tier)
        if isinstance(post_ev, dict) and post_ev.get('disagreements'):
            harness_errors.append(
                'translation validation: symbolic DB and SQLite disagree: %s'
                % str(post_ev['disagreements'][:2])[:600])
    else:
        post_ev = None
    # ---- conformance of the encoding: sampled passing paths re-run on the
    # real application (skipped with VERIF_NO_CONFORMANCE=1)
    conf = dict(sampled=0, agreed=0, skipped=0)
    if os.environ.get('VERIF_NO_CONFORMANCE') != '1' and conf_picked:
        tc = time.time()
        n_ok, n_skip, fails = conformance(fams, conf_picked)
        conf = dict(sampled=len(conf_picked), agreed=n_ok, skipped=n_skip,
                    seconds=round(time.time() - tc, 1))
        totals['replays'] += n_ok
        for f in fails:
            harness_errors.append('conformance: ' + f)
    # ---- verdict
    for kid, (k, famname, v) in known_hit.items():
        print('KNOWN-FINDING: property=%s %s [%s]' % (prop, k['what'], kid))
    rc = 0
    os.makedirs(os.path.join(VERIF, 'replays'), exist_ok=True)
    for fam, v, detail in viol_reported:
        body = dict(property=prop, family=fam.name, clause=v['clause'],
                    sig=v.get('sig'), desc=v.get('desc'),
                    values=v['values'], choices=v.get('choices'),
                    replay_detail=detail)
        h = hashlib.sha1(json.dumps(body, sort_keys=True, default=str)
                         .encode()).hexdigest()[:10]
        path = os.path.join(VERIF, 'replays', '%s-%s.json' % (prop, h))
        json.dump(body, open(path, 'w'), indent=1, default=str)
        print('VIOLATION property=%s replay=%s' % (prop, path))
        print('  family=%s clause=%s %s' % (fam.name, v['clause'],
                                            v.get('desc', '')))
        rc = 1
    if rc == 0 and harness_errors:
        rc = 3
    if rc == 0 and inconclusive:
        rc = 2
    for e in harness_errors[:10]:
        print('HARNESS-ERROR: %s' % e)
    for e in inconclusive[:10]:
        print('INCONCLUSIVE: %s' % e)
    # ---- evidence
    cov = dict(
        states=max(totals['paths'], 0),
        transitions=max(totals['decisions'], 0),
        traces_validated_against_impl=totals['replays'],
        samples=samples or [dict(note='no path explored')],
        evaluations=totals['paths'],
        distinct_nontrivial=totals['paths'],
        rule='one evaluation = one feasible path of the real request code '
             'through a scenario family (distinct decision prefix); each '
             'path stands for all numeric states/inputs satisfying its path '
             'condition',
        obligations=totals['obligations'],
        discharged=totals['discharged'],
        infeasible_prefixes=totals['infeasible'],
        solver_queries=totals['queries'],
        solver_s=round(solver_s, 2),
        unknown_forks=totals['unknown_forks'],
        concretisations=totals['concretisations'],
        refinements=totals['refinements'],
        paths_by_outcome=dict(by_outcome),
        families=fam_ev,
        functions_encoded=list(functions),
        known_findings=[k for k in known_hit],
        inconclusive=inconclusive,
        harness_errors=[e[:400] for e in harness_errors],
        exhaustive=False,
        technique=technique,
    )
    if extra_evidence:
        cov.update(extra_evidence() if callable(extra_evidence)
                   else extra_evidence)
    if post_ev:
        cov['post'] = post_ev
    if xres:
        cov['solver_crosscheck'] = xres
    cov['encoding_conformance'] = dict(
        conf, what='passing paths (per family and outcome class, smallest '
        'and largest decision prefix) re-executed with a model of their path condition '
        'against the real application on real SQLite; the outcome must be '
        'the one the symbolic execution computed')
    ev = dict(property_id=prop, tier=tier, seed=seed, level=level,
              coverage=cov, assumptions=list(assumptions),
              wall_s=round(wall, 2), violations=len(viol_reported))
    # runs against scratch copies of placement (seeded changes, debugging)
    # must not overwrite the evidence of the tree under /repo
    evdir = os.environ.get('VERIF_EVIDENCE_DIR') or \
        os.path.join(VERIF, 'evidence')
    os.makedirs(evdir, exist_ok=True)
    json.dump(ev, open(os.path.join(evdir, '%s.json' % prop), 'w'),
              indent=1, default=str)
    print('%s tier=%s families=%d paths=%d obligations=%d/%d queries=%d '
          'solver=%.1fs wall=%.1fs exit=%d'
          % (prop, tier, len(fams), totals['paths'], totals['discharged'],
             totals['obligations'], totals['queries'], solver_s, wall, rc))
    return rc


def _replay_file(prop, fams, path):
    body = json.load(open(path))
    fam = [f for f in fams if f.name == body['family']]
    if not fam:
        print('unknown family %s' % body['family'])
        return 3
    ok, detail = replay(fam[0], dict(clause=body['clause'],
                                     values=body['values'],
                                     choices=body.get('choices')))
    print('replay %s: %s %s' % (path, 'REPRODUCED' if ok else
                                'not reproduced', detail))
    return 1 if ok else 0
