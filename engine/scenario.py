"""Scenario construction shared by all checks.

A World creates the pre-state of a scenario family through one API that has
two back ends:

* symbolic: rows go into a SymDB, numeric cells / presence bits may be z3
  terms created through the path context;
* real: the *same harness code* is re-run with the concrete values of a
  solver model; rows are inserted into a real SQLite database created by the
  repository's own test fixture, and requests go through the same real WSGI
  app.  This is how every counterexample is replayed before it is reported.
"""
import z3

from engine import app
from engine import symdb
from engine import symex
from engine.symex import Sym, SymNum, PathCtx


def U(n):
    return '%08d-1111-1111-1111-111111111111' % n


# an aggregate may be stored under another spelling of a uuid (aggregate
# uuids are kept verbatim by PUT .../aggregates); set for one path
AGG_ALIAS = {}


def AGG(n):
    if n in AGG_ALIAS:
        return AGG_ALIAS[n]
    return '%08d-aaaa-aaaa-aaaa-aaaaaaaaaaaa' % n


# identifier spaces are independent in the API: a family may make a consumer
# carry the uuid of a provider (set for the duration of one path)
CONS_ALIAS = {}


def CONS(n):
    if n in CONS_ALIAS:
        return CONS_ALIAS[n]
    return '%08d-cccc-cccc-cccc-cccccccccccc' % n


STD_RC = {'VCPU': 0, 'MEMORY_MB': 1, 'DISK_GB': 2}
SHARING = 'MISC_SHARES_VIA_AGGREGATE'
INV_FIELDS = ('total', 'reserved', 'min_unit', 'max_unit', 'step_size',
              'allocation_ratio')


class ConcreteCtx(PathCtx):
    """Path context for replay: every 'symbolic' variable takes the value the
    solver model gave it, so nothing ever forks."""

    def __init__(self, values, prefix=()):
        super().__init__(prefix)
        self.values = values
        self.concrete = True

    def _val(self, name, default):
        v = self.values.get(name, default)
        return v

    def int(self, name, lo=None, hi=None):
        v = self._val(name, lo if lo is not None else 0)
        return int(v)

    def real(self, name, lo=None, hi=None):
        v = self._val(name, 1.0)
        return float(v)

    def bool(self, name):
        return bool(self._val(name, False))

    def assume(self, cond):
        if isinstance(cond, Sym):
            cond = cond.z
        if isinstance(cond, bool):
            return
        if z3.is_false(z3.simplify(cond)):
            self.notes.append('assumption false in replay: %s' % cond)


class RealBackend:
    """Real SQLite through the repository's own Database fixture."""

    def __init__(self):
        from placement.tests import fixtures as pfix

        class _ConfFixture:
            """the part of oslo_config.fixture.Config the Database fixture
            uses, without resetting our ConfigOpts on clean-up"""
            conf = app.CONF

            def config(self, **kw):
                group = kw.pop('group', None)
                for k, v in kw.items():
                    self.conf.set_override(k, v, group)

            def register_opt(self, opt, group=None):
                self.conf.register_opt(opt, group=group)

        self.cf = _ConfFixture()
        self.fix = pfix.Database(self.cf, set_config=True)
        self.fix.setUp()
        from placement import db_api
        self.engine = db_api.get_placement_engine()
        self.metadata = app.models.BASE.metadata
        import sqlalchemy as sa
        with self.engine.begin() as c:
            c.execute(sa.text('DELETE FROM traits'))
            c.execute(sa.text('DELETE FROM resource_classes'))

    def add(self, tname, present=True, **vals):
        if not present:
            return
        t = self.metadata.tables[tname]
        with self.engine.begin() as c:
            c.execute(t.insert().values(**vals))

    def dump(self):
        out = {}
        with self.engine.connect() as c:
            for t in self.metadata.sorted_tables:
                rows = []
                for r in c.execute(t.select()):
                    rows.append(symdb.Row(True, dict(r._mapping)))
                out[t.name] = rows
        return out

    def close(self):
        self.fix.cleanUp()


class World:
    def __init__(self, ctx):
        self.ctx = ctx
        self.concrete = getattr(ctx, 'concrete', False)
        if self.concrete:
            self.backend = RealBackend()
            self.db = None
            self._inst = None
        else:
            self.db = app.new_db()
            self.backend = self.db
            self._inst = app.install(self.db)
        self.inv = {}       # (pid, rcid) -> dict(present=, fields...)
        self.alloc = {}     # (consumer uuid, pid, rcid) -> (present, used)
        self.prov = {}      # pid -> dict(uuid, parent, root, generation)
        self.rcs = {}
        self.traits = {}
        self.aggs = {}
        self.cons = {}
        self._ids = {}

    def close(self):
        if self._inst is not None:
            self._inst.close()
        if self.concrete:
            self.backend.close()

    def __enter__(self):
        return self

    def __exit__(self, *a):
        self.close()
        return False

    def _nid(self, table, base):
        n = self._ids.get(table, base)
        self._ids[table] = n + 1
        return n

    # ---- catalogue
    def rc(self, name, rid=None):
        if rid is None:
            rid = STD_RC.get(name)
        if rid is None:
            rid = self._nid('rc', 10000)
        self.backend.add('resource_classes', id=rid, name=name)
        self.rcs[name] = rid
        return rid

    def trait(self, name):
        tid = self._nid('traits', 1)
        self.backend.add('traits', id=tid, name=name)
        self.traits[name] = tid
        return tid

    def agg(self, n):
        aid = self._nid('aggs', 1)
        self.backend.add('placement_aggregates', id=aid, uuid=AGG(n))
        self.aggs[n] = aid
        return aid

    def project(self, ext='proj', pid=None):
        pid = pid or self._nid('projects', 1)
        self.backend.add('projects', id=pid, external_id=ext)
        return pid

    def user(self, ext='user', uid=None):
        uid = uid or self._nid('users', 1)
        self.backend.add('users', id=uid, external_id=ext)
        return uid

    def consumer_type(self, name, tid=None):
        tid = tid or self._nid('ctypes', 1)
        self.backend.add('consumer_types', id=tid, name=name)
        return tid

    # ---- providers
    def provider(self, pid, parent=None, generation=None, name=None):
        ctx = self.ctx
        if generation is None:
            generation = ctx.int('gen_p%d' % pid, 0)
        root = pid
        if parent is not None:
            root = self.prov[parent]['root']
        self.backend.add('resource_providers', id=pid, uuid=U(pid),
                         name=name or 'p%d' % pid, generation=generation,
                         root_provider_id=root, parent_provider_id=parent)
        self.prov[pid] = dict(uuid=U(pid), parent=parent, root=root,
                              generation=generation)
        return pid

    def inventory(self, pid, rcname, present=None, **fixed):
        """Inventory row with symbolic fields bounded only by the API's own
        schema (placement/schemas/inventory.py)."""
        ctx = self.ctx
        rcid = self.rcs[rcname]
        k = 'p%d_%s' % (pid, rcname)
        if present is None:
            present = ctx.bool('inv_' + k)
        f = {}
        bounds = inventory_bounds()
        for name in INV_FIELDS:
            if name in fixed:
                f[name] = fixed[name]
            elif name == 'allocation_ratio':
                f[name] = ctx.real('ratio_' + k, None, bounds[name][1])
            else:
                lo, hi = bounds[name]
                f[name] = ctx.int('%s_%s' % (name, k), lo, hi)
        self.backend.add('inventories', present=present,
                         id=self._nid('inventories', 100),
                         resource_provider_id=pid, resource_class_id=rcid, **f)
        self.inv[(pid, rcid)] = dict(present=present, **f)
        return self.inv[(pid, rcid)]

    def consumer(self, n, present=True, generation=None, project=1, user=1,
                 ctype=None):
        ctx = self.ctx
        if generation is None:
            generation = ctx.int('cgen_%d' % n, 0)
        cid = self._nid('consumers', 1)
        self.backend.add('consumers', present=present, id=cid, uuid=CONS(n),
                         project_id=project, user_id=user,
                         generation=generation, consumer_type_id=ctype)
        self.cons[n] = dict(id=cid, uuid=CONS(n), present=present,
                            generation=generation, project=project,
                            user=user, ctype=ctype)
        return self.cons[n]

    def allocation(self, n, pid, rcname, present=None, used=None):
        ctx = self.ctx
        rcid = self.rcs[rcname]
        k = 'c%d_p%d_%s' % (n, pid, rcname)
        if present is None:
            present = ctx.bool('alloc_' + k)
        if used is None:
            used = ctx.int('used_' + k, 1)
        self.backend.add('allocations', present=present,
                         id=self._nid('allocations', 500),
                         resource_provider_id=pid, resource_class_id=rcid,
                         consumer_id=CONS(n), used=used)
        self.alloc[(n, pid, rcid)] = (present, used)
        return used

    def has_trait(self, pid, tname, present=None):
        if present is None:
            present = self.ctx.bool('trait_p%d_%s' % (pid, tname))
        self.backend.add('resource_provider_traits', present=present,
                         resource_provider_id=pid,
                         trait_id=self.traits[tname])
        return present

    def in_agg(self, pid, n, present=None):
        if present is None:
            present = self.ctx.bool('agg_p%d_%d' % (pid, n))
        self.backend.add('resource_provider_aggregates', present=present,
                         resource_provider_id=pid, aggregate_id=self.aggs[n])
        return present

    # ---- state access for oracles
    def dump(self):
        """{table: [Row]} of the committed state"""
        if self.concrete:
            return self.backend.dump()
        return {k: [r.copy() for r in v if r.present is not False]
                for k, v in self.db.committed.tables.items()}


_BOUNDS = None


def inventory_bounds():
    """(min, max) per inventory field, read from the real schema object."""
    global _BOUNDS
    if _BOUNDS is None:
        from placement.schemas import inventory as inv_schema
        props = inv_schema.BASE_INVENTORY_SCHEMA['properties']
        _BOUNDS = {k: (props[k].get('minimum'), props[k].get('maximum'))
                   for k in INV_FIELDS}
    return _BOUNDS


# --------------------------------------------------------------------------
# formulas over dumped state

def zpres(r):
    return symdb.zbool(r.present)


def zsum(terms):
    terms = [symex.to_z3(t) for t in terms]
    if not terms:
        return z3.IntVal(0)
    if len(terms) == 1:
        return terms[0]
    return z3.Sum(*terms)


def used_sum(state, pid, rcid, exclude_consumers=()):
    """z3 Int: sum of present allocations of class rcid on provider pid"""
    terms = []
    for r in state['allocations']:
        if r.vals['resource_provider_id'] == pid and \
                r.vals['resource_class_id'] == rcid and \
                r.vals['consumer_id'] not in exclude_consumers:
            terms.append(z3.If(zpres(r), symex.to_z3(r.vals['used']), 0))
    return zsum(terms)


def find_rows(state, table, **eqs):
    out = []
    for r in state[table]:
        if all(not isinstance(r.vals[k], Sym) and r.vals[k] == v
               for k, v in eqs.items()):
            out.append(r)
    return out


def capacity(inv):
    """(total - reserved) * allocation_ratio as the implementation writes it"""
    return symex.z_mul(symex.to_z3(inv['total']) - symex.to_z3(inv['reserved']),
                       symex.to_z3(inv['allocation_ratio']))


def canon(state):
    """Canonical, id-free relations of a concrete state (for comparing two
    back ends or two executions): keyed by uuids and names only."""
    def rows(t):
        return [r.vals for r in state[t] if r.present is True]
    prov = {r['id']: r for r in rows('resource_providers')}
    rcn = {r['id']: r['name'] for r in rows('resource_classes')}
    trn = {r['id']: r['name'] for r in rows('traits')}
    agn = {r['id']: r['uuid'] for r in rows('placement_aggregates')}
    prj = {r['id']: r['external_id'] for r in rows('projects')}
    usr = {r['id']: r['external_id'] for r in rows('users')}
    ctn = {r['id']: r['name'] for r in rows('consumer_types')}

    def pu(i):
        return prov[i]['uuid'] if i in prov else ('?%s' % i if i is not None
                                                  else None)
    out = {}
    out['providers'] = sorted(
        [r['uuid'], r['name'], r['generation'], pu(r['parent_provider_id']),
         pu(r['root_provider_id'])] for r in prov.values())
    out['inventories'] = sorted(
        [pu(r['resource_provider_id']), rcn.get(r['resource_class_id'],
                                                r['resource_class_id']),
         r['total'], r['reserved'], r['min_unit'], r['max_unit'],
         r['step_size'], float(r['allocation_ratio'])]
        for r in rows('inventories'))
    out['allocations'] = sorted(
        [r['consumer_id'], pu(r['resource_provider_id']),
         rcn.get(r['resource_class_id'], r['resource_class_id']), r['used']]
        for r in rows('allocations'))
    out['consumers'] = sorted(
        [r['uuid'], r['generation'], prj.get(r['project_id']),
         usr.get(r['user_id']), ctn.get(r['consumer_type_id'])]
        for r in rows('consumers'))
    out['traits'] = sorted(
        [pu(r['resource_provider_id']), trn.get(r['trait_id'], r['trait_id'])]
        for r in rows('resource_provider_traits'))
    out['aggregates'] = sorted(
        [pu(r['resource_provider_id']), agn.get(r['aggregate_id'],
                                                r['aggregate_id'])]
        for r in rows('resource_provider_aggregates'))
    out['resource_classes'] = sorted(
        [r['id'], r['name']] for r in rows('resource_classes'))
    out['trait_names'] = sorted(trn.values())
    out['projects'] = sorted(prj.values())
    out['users'] = sorted(usr.values())
    out['consumer_types'] = sorted(ctn.values())
    return out


# --------------------------------------------------------------------------
# relational comparison of two (possibly symbolic) states

NATURAL_KEYS = {
    'resource_providers': ('uuid',),
    'inventories': ('resource_provider_id', 'resource_class_id'),
    'allocations': ('consumer_id', 'resource_provider_id',
                    'resource_class_id'),
    'consumers': ('uuid',),
    'resource_provider_traits': ('resource_provider_id', 'trait_id'),
    'resource_provider_aggregates': ('resource_provider_id', 'aggregate_id'),
    'resource_classes': ('name',),
    'traits': ('name',),
    'projects': ('external_id',),
    'users': ('external_id',),
    'consumer_types': ('name',),
    'placement_aggregates': ('uuid',),
}
IGNORED_COLS = {'created_at', 'updated_at'}
CORE_TABLES = ('resource_providers', 'inventories', 'allocations',
               'consumers', 'resource_provider_traits',
               'resource_provider_aggregates', 'resource_classes', 'traits')


def _by_key(state, table):
    keycols = NATURAL_KEYS[table]
    out = {}
    for r in state[table]:
        if r.present is False:
            continue
        k = tuple(r.vals[c] for c in keycols)
        if any(isinstance(x, Sym) for x in k):
            raise NotImplementedError('symbolic natural key in %s' % table)
        out.setdefault(k, []).append(r)
    return out


def _merged(rows, col):
    """value of `col` of the (at most one) present row among rows, as an
    (isnull, value) pair; absent -> NULL"""
    res = symdb.NULL
    for r in reversed(rows):
        res = symdb.ite_nv(r.present, symdb.sqlval(r.vals[col]), res)
    return res


def rel_diff(a, b, tables=CORE_TABLES, skip_cols=()):
    """z3 Bool (or python bool): the two states differ on the given tables,
    comparing rows by natural key and ignoring surrogate ids of tables whose
    natural key is not the id, and timestamps."""
    diffs = []
    ev = symdb.Evaluator(None)
    for t in tables:
        ka, kb = _by_key(a, t), _by_key(b, t)
        cols = [c for c in (list(a[t][0].vals) if a[t] else
                            list(b[t][0].vals) if b[t] else [])
                if c not in IGNORED_COLS and c not in skip_cols and
                not (c == 'id' and t in ('allocations', 'inventories',
                                         'consumers',
                                         'resource_provider_traits',
                                         'resource_provider_aggregates'))]
        for k in set(ka) | set(kb):
            ra, rb = ka.get(k, []), kb.get(k, [])
            pa = symdb.Or(*[r.present for r in ra])
            pb = symdb.Or(*[r.present for r in rb])
            d = symdb.Or(symdb.And(pa, symdb.Not(pb)),
                         symdb.And(pb, symdb.Not(pa)))
            if d is not False:
                diffs.append(d)
            both = symdb.And(pa, pb)
            if both is False:
                continue
            for c in cols:
                if c in NATURAL_KEYS[t]:
                    continue
                same = ev._same(_merged(ra, c), _merged(rb, c))
                d = symdb.And(both, symdb.Not(same))
                if d is not False:
                    diffs.append(d)
    return symdb.Or(*diffs)
